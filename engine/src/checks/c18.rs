//! C18: clipping a cell is independent of vertex storage order (engine E4).

use crate::alpha::*;
use crate::report::*;
use crate::tess::*;
use crate::util::*;
use glam::DVec3;
use meshless_voronoi::integrals::VolumeIntegral;
use meshless_voronoi::verif::{ClipCell, Cycle};
use std::collections::{BTreeMap, BTreeSet, HashSet, VecDeque};
use std::sync::Mutex;

/// Removed-vertex configurations (plane triples + index of the new plane) already explored completely in this
/// run: the reconstruction of the rim is purely combinatorial, so a repeated configuration is only re-clipped
/// for two orders (to bind it to this cell's geometry).
pub static THOROUGH: std::sync::atomic::AtomicBool = std::sync::atomic::AtomicBool::new(false);

fn thorough() -> bool {
    THOROUGH.load(std::sync::atomic::Ordering::Relaxed)
}

static SEEN_CONFIGS: Mutex<Option<HashSet<u64>>> = Mutex::new(None);

fn config_is_new(removed: &[[usize; 3]], p_idx: usize, kept: usize) -> bool {
    let mut r: Vec<[usize; 3]> = removed.to_vec();
    r.sort();
    let mut h = Fnv::new();
    for t in &r {
        for x in t {
            h.u64(*x as u64);
        }
    }
    h.u64(p_idx as u64);
    h.u64(kept.min(1) as u64);
    let mut g = SEEN_CONFIGS.lock().unwrap();
    g.get_or_insert_with(HashSet::new).insert(h.finish())
}

fn norm_triple(d: [usize; 3]) -> [usize; 3] {
    // cyclic normalisation: smallest element first, orientation preserved
    let m = (0..3).min_by_key(|&i| d[i]).unwrap();
    [d[m], d[(m + 1) % 3], d[(m + 2) % 3]]
}

fn canonical(cc: &ClipCell) -> Vec<[usize; 3]> {
    let mut v: Vec<[usize; 3]> = cc.cell.vertices.iter().map(|x| norm_triple(x.dual)).collect();
    v.sort();
    v
}

/// Volume scale of the box the cell lives in (absolute floor for comparisons of two decompositions).
fn base_scale(cc: &ClipCell) -> f64 {
    let (mut lo, mut hi) = (DVec3::splat(f64::INFINITY), DVec3::splat(f64::NEG_INFINITY));
    for v in &cc.cell.vertices {
        lo = lo.min(v.loc);
        hi = hi.max(v.loc);
    }
    let d = hi - lo;
    (d.x * d.y * d.z).abs().max(1e-300)
}

fn volume(cc: &ClipCell) -> f64 {
    cc.cell.compute_cell_integral::<(), VolumeIntegral>(()).volume
}

/// Closedness: three distinct planes per vertex, every directed edge (ordered plane pair) of a vertex
/// is matched by the reversed pair in exactly one other vertex, Euler.
fn closedness(canon: &[[usize; 3]]) -> Option<String> {
    let mut edges: BTreeMap<(usize, usize), usize> = BTreeMap::new();
    let mut planes = BTreeSet::new();
    for t in canon {
        if t[0] == t[1] || t[1] == t[2] || t[0] == t[2] {
            return Some(format!("vertex {:?} has a repeated plane", t));
        }
        for k in 0..3 {
            *edges.entry((t[k], t[(k + 1) % 3])).or_insert(0) += 1;
            planes.insert(t[k]);
        }
    }
    for ((a, b), c) in &edges {
        if *c != 1 {
            return Some(format!("plane pair ({},{}) occurs {} times with the same orientation", a, b, c));
        }
        if edges.get(&(*b, *a)).copied().unwrap_or(0) != 1 {
            return Some(format!("plane pair ({},{}) has no matching vertex on the other end of the edge", a, b));
        }
    }
    let v = canon.len() as i64;
    let e = (edges.len() / 2) as i64;
    let f = planes.len() as i64;
    if v - e + f != 2 {
        return Some(format!("Euler: V={} E={} F={}", v, e, f));
    }
    None
}

fn permutations(n: usize) -> Vec<Vec<usize>> {
    let mut out = vec![];
    let mut p: Vec<usize> = (0..n).collect();
    fn heap(k: usize, p: &mut Vec<usize>, out: &mut Vec<Vec<usize>>) {
        if k <= 1 {
            out.push(p.clone());
            return;
        }
        for i in 0..k {
            heap(k - 1, p, out);
            if k % 2 == 0 {
                p.swap(i, k - 1);
            } else {
                p.swap(0, k - 1);
            }
        }
    }
    heap(n, &mut p, &mut out);
    out
}

/// Orders to try for r removed vertices: all r! for r <= 7, deviation-bounded (<= 2 transpositions) above.
fn orders(r: usize) -> (Vec<Vec<usize>>, bool) {
    if r <= if thorough() { 7 } else { 6 } {
        (permutations(r), true)
    } else {
        let id: Vec<usize> = (0..r).collect();
        let mut set: BTreeSet<Vec<usize>> = BTreeSet::new();
        set.insert(id.clone());
        for a in 0..r {
            for b in (a + 1)..r {
                let mut p = id.clone();
                p.swap(a, b);
                set.insert(p.clone());
                // a second transposition only while the menu stays small (r <= 12: at most 66^2 orders)
                if r <= 12 {
                    for c in 0..r {
                        for d in (c + 1)..r {
                            let mut q = p.clone();
                            q.swap(c, d);
                            set.insert(q);
                        }
                    }
                }
            }
        }
        // interleavings: even positions first, odd positions first, outside-in
        let mut ev: Vec<usize> = (0..r).filter(|i| i % 2 == 0).collect();
        ev.extend((0..r).filter(|i| i % 2 == 1));
        set.insert(ev);
        let mut od: Vec<usize> = (0..r).filter(|i| i % 2 == 1).collect();
        od.extend((0..r).filter(|i| i % 2 == 0));
        set.insert(od);
        let mut oi = vec![];
        for k in 0..r.div_ceil(2) {
            oi.push(k);
            if r - 1 - k != k {
                oi.push(r - 1 - k);
            }
        }
        set.insert(oi);
        // plus the reversal and the rotations of the identity
        let mut rev = id.clone();
        rev.reverse();
        set.insert(rev);
        for k in 1..r {
            let mut q = id.clone();
            q.rotate_left(k);
            set.insert(q);
        }
        (set.into_iter().collect(), false)
    }
}

/// Rotation patterns for r removed vertices: all 3^r for r <= 4, four patterns above.
fn rotation_patterns(r: usize) -> Vec<Vec<usize>> {
    if r <= if thorough() { 4 } else { 3 } {
        let mut out = vec![];
        let total = 3usize.pow(r as u32);
        for code in 0..total {
            let mut c = code;
            let mut v = vec![];
            for _ in 0..r {
                v.push(c % 3);
                c /= 3;
            }
            out.push(v);
        }
        out
    } else {
        let mut v = vec![vec![0; r], (0..r).map(|i| i % 3).collect(), (0..r).map(|i| (2 * i + 1) % 3).collect()];
        if thorough() {
            v.push(vec![1; r]);
            v.push(vec![2; r]);
        }
        v
    }
}

fn rotate(d: [usize; 3], k: usize) -> [usize; 3] {
    [d[k % 3], d[(k + 1) % 3], d[(k + 2) % 3]]
}

/// Explore all storage orders for one (cell, plane) pair. Returns (re-clips done, exhaustive?).
#[allow(clippy::too_many_arguments)]
fn explore_clip(e: &mut Eval, st: &State, case: &str, extra: &[(&str, String)], base: &ClipCell, ngb: usize, shift: Option<DVec3>, kept_menu: usize) -> (u64, bool, usize) {
    let check = "c18";
    let rp = || replay_text(check, st, extra);
    // reference clip
    let mut refc = base.clone();
    if let Err(p) = guarded(|| refc.clip_by_neighbour_unconditional(ngb, shift)) {
        // the unpermuted clip of a reachable cell must succeed as well (no enumerated state is in the R5 class of
        // C05: that class is near-degenerate input, these are exact lattices and general-position sets)
        e.issue(format!("panic-in-reference-clip:{}", p.msg.chars().take(60).collect::<String>()), case, format!("the clip in the builder's own storage order panicked: {} ({})", p.msg, p.site), rp());
        return (1, true, 0);
    }
    let before: Vec<[usize; 3]> = base.cell.vertices.iter().map(|v| norm_triple(v.dual)).collect();
    let after = canonical(&refc);
    let removed_idx: Vec<usize> = (0..before.len()).filter(|&i| !after.contains(&before[i])).collect();
    let kept_idx: Vec<usize> = (0..before.len()).filter(|&i| after.contains(&before[i])).collect();
    let r = removed_idx.len();
    if r == 0 {
        return (0, true, 0);
    }
    if let Some(why) = closedness(&after) {
        e.issue("result-not-closed", case, format!("reference clip: {}", why), rp());
    }
    let vref = volume(&refc);
    let removed_triples: Vec<[usize; 3]> = removed_idx.iter().map(|&i| before[i]).collect();
    let is_new = config_is_new(&removed_triples, base.cell.clipping_planes.len(), kept_idx.len());
    let (mut ords, exhaustive) = orders(r);
    let mut rots = rotation_patterns(r);
    let mut kept_menu = kept_menu;
    if !is_new {
        // configuration already enumerated completely: identity and reversed order only
        let idp: Vec<usize> = (0..r).collect();
        let mut rev = idp.clone();
        rev.reverse();
        ords = vec![idp, rev];
        rots = vec![vec![0; r], (0..r).map(|i| (i + 1) % 3).collect()];
        kept_menu = 1;
    } else if r >= 4 {
        kept_menu = kept_menu.min(if r >= 5 { 1 } else { 2 });
    }
    let mut count = 0u64;
    let scale = vref.abs().max(1e-300);
    // the same clip starting from elsewhere: the cell after a round trip through the type states (with_faces, then
    // discard_faces "making this cell safe for clipping by additional half spaces again"), and a clone of it
    if st.dim == 3 {
        let mut rt = base.clone();
        match guarded(|| {
            rt.cell = rt.cell.clone().with_faces().discard_faces();
            rt.clip_by_neighbour_unconditional(ngb, shift);
            rt
        }) {
            Err(p) => e.issue(format!("panic-after-type-state-round-trip:{}", p.msg.chars().take(50).collect::<String>()), case, format!("clip after with_faces().discard_faces(): {} ({})", p.msg, p.site), rp()),
            Ok(rt) => {
                count += 1;
                let can = canonical(&rt);
                if can != after {
                    e.issue("result-depends-on-type-state-history", case, format!("clip after with_faces().discard_faces(): vertex set {:?} instead of {:?}", can, after), rp());
                } else {
                    let v = volume(&rt);
                    if !((v - vref).abs() <= 1e-9 * scale + 1e-13) {
                        e.issue("volume-depends-on-type-state-history", case, format!("clip after with_faces().discard_faces(): volume {:e} vs {:e}", v, vref), rp());
                    }
                    // ... and the faces re-derived after that clip are the faces of the clipped cell, not of the cell
                    // before it (fan decomposition over the stored face polygons = the decomposition without faces)
                    match guarded(|| {
                        let wf = rt.cell.clone().with_faces();
                        let nv: usize = (0..wf.face_count()).map(|f| wf.face_vertex_count(f)).sum();
                        (wf.compute_cell_integral::<(), VolumeIntegral>(()).volume, nv, wf.vertices.len())
                    }) {
                        Err(p) => e.issue("panic-in-with_faces-after-clip", case, format!("with_faces() after with_faces().discard_faces() and a clip: {} ({})", p.msg, p.site), rp()),
                        Ok((vf, nv, nvert)) => {
                            if !((vf - vref).abs() <= 1e-9 * scale + 1e-12 * base_scale(&rt)) || nv != 3 * nvert {
                                e.issue("stale-faces-after-clip", case, format!("with_faces() after a round trip and a clip: volume over the face polygons {:e} vs {:e}; {} face-vertex incidences for {} vertices", vf, vref, nv, nvert), rp());
                            }
                        }
                    }
                }
            }
        }
    }
    for kept_variant in 0..kept_menu {
        for ord in &ords {
            for rot in &rots {
                let mut cc = base.clone();
                // new storage: kept vertices (variant: as is / reversed with rotated duals), then removed in the given order
                let mut verts = vec![];
                let mut kept: Vec<usize> = kept_idx.clone();
                if kept_variant == 1 {
                    kept.reverse();
                }
                // interleave: variant 2 puts the removed vertices first
                let mut removed = vec![];
                for (k, &oi) in ord.iter().enumerate() {
                    let mut v = base.cell.vertices[removed_idx[oi]].clone();
                    v.dual = rotate(v.dual, rot[k]);
                    removed.push(v);
                }
                let mut keptv = vec![];
                for &ki in &kept {
                    let mut v = base.cell.vertices[ki].clone();
                    if kept_variant >= 1 {
                        v.dual = rotate(v.dual, 1 + (ki % 2));
                    }
                    keptv.push(v);
                }
                if kept_variant == 2 {
                    verts.extend(removed);
                    verts.extend(keptv);
                } else {
                    verts.extend(keptv);
                    verts.extend(removed);
                }
                cc.cell.vertices = verts;
                count += 1;
                match guarded(|| {
                    cc.clip_by_neighbour_unconditional(ngb, shift);
                    cc
                }) {
                    Err(p) => {
                        e.issue(
                            format!("panic:{}", p.msg.chars().take(60).collect::<String>()),
                            case,
                            format!("removed set of {} vertices, order {:?}, rotations {:?}, kept variant {}: {} ({})", r, ord, rot, kept_variant, p.msg, p.site),
                            rp(),
                        );
                        return (count, exhaustive, r);
                    }
                    Ok(cc) => {
                        let can = canonical(&cc);
                        if can != after {
                            e.issue(
                                "result-depends-on-storage-order",
                                case,
                                format!("removed set of {} vertices, order {:?}, rotations {:?}, kept variant {}: vertex set {:?} instead of {:?}", r, ord, rot, kept_variant, can, after),
                                rp(),
                            );
                            return (count, exhaustive, r);
                        }
                        let v = volume(&cc);
                        if !((v - vref).abs() <= 1e-9 * scale + 1e-13) {
                            e.issue("volume-depends-on-storage-order", case, format!("order {:?} rotations {:?}: volume {:e} vs {:e}", ord, rot, v, vref), rp());
                            return (count, exhaustive, r);
                        }
                    }
                }
            }
        }
    }
    (count, exhaustive, r)
}

/// One item: a 3D state plus the extra alphabet points whose bisectors are tried as additional planes.
pub fn eval_c18(item: &(State, Vec<DVec3>)) -> Eval {
    let (st, extra_pts) = item;
    let mut e = Eval::default();
    let n = st.n();
    let mut h = Fnv::new();
    // generator list = state generators followed by the extra points (never visited by the builder)
    let mut gens = st.gens.clone();
    gens.extend(extra_pts.iter().copied());
    let mut max_r = 0usize;
    let mut max_planes = 0usize;
    for i in 0..n {
        let seq = match guarded(|| meshless_voronoi::verif::nn_sequence(&st.gens, i, st.norm_width(), st.dimensionality(), st.periodic)) {
            Ok(s) => s,
            Err(_) => continue,
        };
        let init = guarded(|| ClipCell::init(&gens, i, st.norm_anchor(), st.norm_width(), st.dimensionality(), st.periodic));
        let Ok(mut cc) = init else { continue };
        // a twin advanced through the same clips on which no integral is ever evaluated: the cell that is integrated
        // between its clips (`cc`) must stay bitwise the cell that is not
        let mut twin = cc.clone();
        let mut stage = 0usize;
        let mut todo: Vec<(usize, Option<DVec3>)> = seq.iter().skip(1).cloned().collect();
        todo.push((usize::MAX, None));
        for (j, shift) in todo {
            // planes to try at this stage: the builder's next neighbour and every extra point
            let mut planes: Vec<(usize, Option<DVec3>, String)> = vec![];
            if j != usize::MAX {
                planes.push((j, shift, format!("next={}", j)));
            }
            for x in 0..extra_pts.len() {
                planes.push((n + x, None, format!("extra={}", x)));
            }
            for (pj, psh, pname) in planes {
                let case = format!("{}|cell={}|stage={}|{}", st.id, i, stage, pname);
                let extra = [("cell", i.to_string()), ("stage", stage.to_string()), ("plane", pname.clone())];
                let (cnt, exh, r) = explore_clip(&mut e, st, &case, &extra, &cc, pj, psh, if stage <= 2 { 3 } else { 2 });
                e.impl_runs += cnt;
                if cnt > 0 {
                    e.transitions += 1;
                    h.u64(r as u64);
                    max_r = max_r.max(r);
                    if !exh {
                        e.count("clips_with_more_than_7_removed_vertices(deviation-bounded orders)", 1);
                    }
                    let key: &'static str = match r {
                        1 => "removed_sets_of_size_1",
                        2 => "removed_sets_of_size_2",
                        3 => "removed_sets_of_size_3",
                        4 => "removed_sets_of_size_4",
                        5 => "removed_sets_of_size_5",
                        6 => "removed_sets_of_size_6",
                        7 => "removed_sets_of_size_7",
                        _ => "removed_sets_of_size_8+",
                    };
                    e.count(key, 1);
                }
            }
            if j == usize::MAX {
                break;
            }
            // advance like the builder
            match guarded(|| {
                let cont = cc.clip_by_neighbour(j, shift);
                (cc, cont)
            }) {
                Ok((c2, cont)) => {
                    cc = c2;
                    max_planes = max_planes.max(cc.cell.clipping_planes.len());
                    if let Ok(seen) = guarded(|| {
                        twin.clip_by_neighbour(j, shift);
                        let fresh = twin.clone();
                        let a = cc.cell.compute_cell_integral::<(), VolumeIntegral>(()).volume;
                        let fa: Vec<u64> = cc.cell.compute_face_integrals::<(), meshless_voronoi::integrals::AreaIntegral>(()).iter().map(|f| f.integral().area.to_bits()).collect();
                        let b = fresh.cell.compute_cell_integral::<(), VolumeIntegral>(()).volume;
                        let fb: Vec<u64> = fresh.cell.compute_face_integrals::<(), meshless_voronoi::integrals::AreaIntegral>(()).iter().map(|f| f.integral().area.to_bits()).collect();
                        (a, b, fa == fb)
                    }) {
                        if seen.0.to_bits() != seen.1.to_bits() || !seen.2 {
                            let case = format!("{}|cell={}|stage={}", st.id, i, stage);
                            e.issue("integrals-between-clips-change-the-cell", &case, format!("volume {:e} of the cell that was integrated after every clip, {:e} of the same cell never integrated before (face areas equal: {})", seen.0, seen.1, seen.2), replay_text("c18", st, &[("cell", i.to_string()), ("stage", stage.to_string())]));
                        }
                    } else {
                        let case = format!("{}|cell={}|stage={}", st.id, i, stage);
                        e.issue("panic-integrating-between-clips", &case, "an integral evaluated between two clips of the same cell panicked".to_string(), replay_text("c18", st, &[("cell", i.to_string()), ("stage", stage.to_string())]));
                    }
                    if !cont {
                        break;
                    }
                }
                Err(_) => break,
            }
            stage += 1;
        }
    }
    e.sig = h.finish();
    e.nontrivial = max_r >= 2;
    if max_planes > 256 + 6 {
        e.count("states_with_a_cell_of_more_than_256_effective_clips", 1);
    }
    if max_r >= 33 {
        e.count("states_with_a_removed_set_of_33+_vertices", 1);
    }
    if max_r >= 17 {
        e.count("states_with_a_removed_set_of_17+_vertices", 1);
    }
    e
}

// ---------------------------------------------------------------------------------------------
// Companion: the boundary cycle on all small triangulated disks

#[derive(Clone, Debug, PartialEq, Eq, Hash, PartialOrd, Ord)]
pub struct Disk {
    /// oriented triangles (counter-clockwise)
    pub tris: Vec<[usize; 3]>,
    /// boundary cycle (counter-clockwise)
    pub boundary: Vec<usize>,
    pub nverts: usize,
}

fn canon_disk(d: &Disk) -> (Vec<[usize; 3]>, usize) {
    // canonical up to relabelling: try every (boundary start, as first labels) and take the smallest
    // triangle list; sufficient for de-duplication of small disks
    let mut best: Option<Vec<[usize; 3]>> = None;
    let b = &d.boundary;
    for s in 0..b.len() {
        let mut map: Vec<Option<usize>> = vec![None; d.nverts];
        let mut next = 0;
        for k in 0..b.len() {
            let v = b[(s + k) % b.len()];
            if map[v].is_none() {
                map[v] = Some(next);
                next += 1;
            }
        }
        // interior vertices: label by BFS order over triangles sorted by already labelled vertices
        let mut changed = true;
        while changed {
            changed = false;
            let mut cand: Vec<(Vec<usize>, usize)> = vec![];
            for t in &d.tris {
                for &v in t {
                    if map[v].is_none() {
                        let mut key: Vec<usize> = t.iter().filter_map(|&u| map[u]).collect();
                        key.sort();
                        cand.push((key, v));
                    }
                }
            }
            cand.sort();
            if let Some((_, v)) = cand.first() {
                map[*v] = Some(next);
                next += 1;
                changed = true;
            }
        }
        let mut tl: Vec<[usize; 3]> = d.tris.iter().map(|t| norm_triple([map[t[0]].unwrap(), map[t[1]].unwrap(), map[t[2]].unwrap()])).collect();
        tl.sort();
        if best.as_ref().map_or(true, |bb| tl < *bb) {
            best = Some(tl);
        }
    }
    (best.unwrap(), d.nverts)
}

/// All triangulated disks with at most `max_t` triangles, grown from one triangle by (a) attaching a
/// triangle with a new vertex along a boundary edge, (b) filling a notch (two consecutive boundary
/// edges), which makes the middle vertex interior.
pub fn enumerate_disks(max_t: usize) -> Vec<Disk> {
    let start = Disk { tris: vec![[0, 1, 2]], boundary: vec![0, 1, 2], nverts: 3 };
    let mut seen: HashSet<(Vec<[usize; 3]>, usize)> = HashSet::new();
    seen.insert(canon_disk(&start));
    let mut out = vec![start.clone()];
    let mut q = VecDeque::new();
    q.push_back(start);
    while let Some(d) = q.pop_front() {
        if d.tris.len() >= max_t {
            continue;
        }
        let b = d.boundary.len();
        for k in 0..b {
            let (u, v) = (d.boundary[k], d.boundary[(k + 1) % b]);
            // (a) new vertex w outside edge (u, v): triangle (v, u, w) is ccw outside the disk
            let w = d.nverts;
            let mut nd = d.clone();
            nd.tris.push([v, u, w]);
            nd.nverts += 1;
            let mut nb = vec![];
            for i in 0..b {
                nb.push(d.boundary[i]);
                if i == k {
                    nb.push(w);
                }
            }
            nd.boundary = nb;
            let c = canon_disk(&nd);
            if seen.insert(c) {
                out.push(nd.clone());
                q.push_back(nd);
            }
            // (b) fill the notch at v: consecutive edges (u, v), (v, x) -> triangle (x, v, u); needs b >= 4 and
            // the chord (u, x) must not already be an edge of the disk
            if b >= 4 {
                let x = d.boundary[(k + 2) % b];
                let chord_exists = d.tris.iter().any(|t| t.contains(&u) && t.contains(&x));
                if !chord_exists {
                    let mut nd = d.clone();
                    nd.tris.push([x, v, u]);
                    nd.boundary = (0..b).filter(|&i| i != (k + 1) % b).map(|i| d.boundary[i]).collect();
                    let c = canon_disk(&nd);
                    if seen.insert(c) {
                        out.push(nd.clone());
                        q.push_back(nd);
                    }
                }
            }
        }
    }
    out
}

/// Drive the real SimpleCycle with the builder's greedy loop over every order (and rotation pattern)
/// of the disk's triangles. In the dual picture a removed vertex is a triangle of plane indices whose
/// orientation is the vertex's dual; the cycle around the removed region is the disk's boundary.
pub fn eval_disk(d: &Disk) -> Eval {
    let mut e = Eval::default();
    let k = d.tris.len();
    let case = format!("disk tris={:?}", d.tris);
    let rp = || format!("check=c18-cycle\ntris={:?}\n", d.tris);
    let expected = {
        // cyclic normal form of the boundary
        let b = &d.boundary;
        let m = (0..b.len()).min_by_key(|&i| b[i]).unwrap();
        let mut v = vec![];
        for i in 0..b.len() {
            v.push(b[(m + i) % b.len()]);
        }
        v
    };
    let (ords, _) = orders(k);
    let rots = rotation_patterns(k);
    let mut h = Fnv::new();
    let mut max_deferred = 0usize;
    for ord in &ords {
        for rot in &rots {
            let mut tris: Vec<[usize; 3]> = ord.iter().enumerate().map(|(p, &i)| rotate(d.tris[i], rot[p])).collect();
            let r = guarded(|| {
                let mut cyc = Cycle::new(d.nverts);
                // the cycle object is reused between clips: dirty it first with an unrelated triangle
                if d.nverts >= 3 {
                    cyc.init(d.nverts - 1, d.nverts - 2, d.nverts - 3);
                }
                cyc.init(tris[0][0], tris[0][1], tris[0][2]);
                let mut deferred = 0usize;
                for i in 1..tris.len() {
                    let mut idx = i;
                    loop {
                        if idx >= tris.len() {
                            return Err(format!("stuck after {} triangles: none of the remaining {:?} can be attached to cycle {:?}", i, &tris[i..], cyc.to_vec()));
                        }
                        let t = tris[idx];
                        match cyc.try_extend(t[0], t[1], t[2]) {
                            Ok(()) => {
                                if idx > i {
                                    tris.swap(i, idx);
                                    deferred += 1;
                                }
                                break;
                            }
                            Err(()) => idx += 1,
                        }
                    }
                }
                Ok((cyc.to_vec(), cyc.len(), deferred))
            });
            e.impl_runs += 1;
            match r {
                Err(p) => {
                    e.issue("cycle-panic", &case, format!("order {:?} rotations {:?}: {}", ord, rot, p.msg), rp());
                    return e;
                }
                Ok(Err(why)) => {
                    e.issue("cycle-reconstruction-stuck", &case, format!("order {:?} rotations {:?}: {}", ord, rot, why), rp());
                    return e;
                }
                Ok(Ok((cycle, len, deferred))) => {
                    max_deferred = max_deferred.max(deferred);
                    let m = (0..cycle.len()).min_by_key(|&i| cycle[i]).unwrap_or(0);
                    let mut c = vec![];
                    for i in 0..cycle.len() {
                        c.push(cycle[(m + i) % cycle.len()]);
                    }
                    if len != expected.len() || c != expected {
                        e.issue("cycle-not-the-boundary", &case, format!("order {:?} rotations {:?}: cycle {:?} (len {}), boundary of the disk {:?}", ord, rot, c, len, expected), rp());
                        return e;
                    }
                }
            }
        }
    }
    e.transitions = 1;
    h.u64(k as u64);
    h.u64(d.boundary.len() as u64);
    h.u64(max_deferred as u64);
    e.sig = h.finish();
    e.nontrivial = k >= 2;
    e
}

/// Long clip histories: a box shaved `steps` times by half-spaces that each remove the four (or, in the round-robin
/// variant, the four on that axis) vertices created earlier, so the cell keeps 8 vertices and 6 faces while its list of
/// clipping planes (which never shrinks) and the number of boundary reconstructions grow beyond 2^16. At check points
/// the clip is repeated on copies whose vertices are stored in reversed and rotated order / with rotated plane triples.
pub fn eval_c18_long(item: &(usize, bool)) -> Eval {
    let (steps, round_robin) = *item;
    let mut e = Eval::default();
    let id = format!("box shaved {} times ({})", steps, if round_robin { "x, y, z in turn" } else { "along x" });
    let rp = || format!("check=c18-long\nsteps={}\nround_robin={}\n", steps, round_robin);
    let r = guarded(|| {
        let gens = [v3(0.25, 0.25, 0.25)];
        let mut cc = ClipCell::init(&gens, 0, DVec3::ZERO, DVec3::ONE, meshless_voronoi::Dimensionality::ThreeD, false);
        let dx = 0.5 / steps as f64;
        let mut hi = if round_robin { [0.95f64; 3] } else { [0.95f64, 1., 1.] };
        let mut issues: Vec<(String, String)> = vec![];
        let mut sig = Fnv::new();
        for step in 0..steps {
            let ax = if round_robin { step % 3 } else { 0 };
            hi[ax] -= dx;
            let mut n = DVec3::ZERO;
            set_comp(&mut n, ax, -1.);
            let mut p = v3(0.3, 0.3, 0.3);
            set_comp(&mut p, ax, hi[ax]);
            let check_now = step % 4096 == 4095 || (step + 64 >= 65536 && step <= 65536 + 64) || step + 1 == steps;
            let before = if check_now { Some(cc.clone()) } else { None };
            cc.clip(meshless_voronoi::HalfSpace::new(n, p, None, None));
            if cc.cell.clipping_planes.len() != 7 + step {
                issues.push(("clip-history-plane-count".into(), format!("step {}: {} clipping planes", step, cc.cell.clipping_planes.len())));
                break;
            }
            if let Some(base) = before {
                let canon = canonical(&cc);
                if let Some(m) = closedness(&canon) {
                    issues.push(("not-closed-after-long-history".into(), format!("step {}: {}", step, m)));
                    break;
                }
                if cc.cell.vertices.len() != 8 {
                    issues.push(("vertex-count-after-long-history".into(), format!("step {}: {} vertices", step, cc.cell.vertices.len())));
                    break;
                }
                let vol = volume(&cc);
                let want = hi[0] * hi[1] * hi[2];
                if !((vol - want).abs() <= 1e-9) {
                    issues.push(("volume-after-long-history".into(), format!("step {}: volume {:e}, expected {:e}", step, vol, want)));
                    break;
                }
                // storage orders: reversed, rotated by 3, plane triples rotated
                for variant in 0..3 {
                    let mut alt = base.clone();
                    match variant {
                        0 => alt.cell.vertices.reverse(),
                        1 => alt.cell.vertices.rotate_left(3),
                        _ => {
                            for v in alt.cell.vertices.iter_mut() {
                                v.dual = [v.dual[1], v.dual[2], v.dual[0]];
                            }
                        }
                    }
                    alt.clip(meshless_voronoi::HalfSpace::new(n, p, None, None));
                    if canonical(&alt) != canon {
                        issues.push(("storage-order-changes-result-after-long-history".into(), format!("step {}: variant {}", step, variant)));
                    }
                }
                sig.u64(canon.len() as u64);
            }
        }
        (issues, sig.finish())
    });
    e.impl_runs += steps as u64;
    e.transitions += steps as u64;
    match r {
        Err(p) => e.issue(format!("panic:{}", p.msg.chars().take(70).collect::<String>()), &id, format!("clip panicked at {}: {}", p.site, p.msg), rp()),
        Ok((issues, sig)) => {
            for (c, d) in issues {
                e.issue(c, &id, d, rp());
            }
            e.sig = sig;
        }
    }
    e.nontrivial = true;
    e
}

/// `eval_c18` with a state-level guard: a panic of the library in a call that is not guarded individually (an integral
/// of an intermediate cell) is an observation about that state, not a harness crash.
fn eval_c18_guarded(item: &(State, Vec<DVec3>)) -> Eval {
    match guarded(|| eval_c18(item)) {
        Ok(e) => e,
        Err(p) => {
            let mut e = Eval::default();
            e.issue(format!("panic:{}", p.msg.chars().take(70).collect::<String>()), item.0.id.clone(), format!("a library call on a cell of this state panicked at {}: {}", p.site, p.msg), replay_text("c18", &item.0, &[]));
            e
        }
    }
}

pub fn run_c18(run: &mut Run) {
    let thorough = run.thorough();
    THOROUGH.store(thorough, std::sync::atomic::Ordering::Relaxed);
    run.rule = "cells = every intermediate and final cell the builder reaches (rebuilt clip by clip through the hook wrapper) for the 3D lattice/generic states; planes = the builder's next neighbour and the bisector towards every unused alphabet point; per (cell, plane): all |R|! storage orders of the removed vertices (|R| <= 6 quick / 7 thorough; deviation-bounded orders above: <= 2 transpositions (1 for |R| > 12), reversal, rotations, three interleavings) x all 3^|R| rotations of their plane triples (|R| <= 3 quick / 4 thorough; 3 resp. 5 rotation patterns above) x up to 3 arrangements of the kept vertices; a removed-vertex configuration (plane triples + new plane index) is enumerated completely once per run and re-clipped for two orders at every further occurrence (the reconstruction is purely combinatorial); oracle = canonical form (cyclically normalised plane triples) and volume equal to the unpermuted clip, closedness, Euler. Companion: the real boundary cycle driven by the builder's greedy loop over every order of every triangulated disk with <= 6 (quick) / 7 (thorough) triangles: never stuck, always the disk's boundary. non-trivial = at least 2 removed vertices".to_string();
    // part A
    let boxes = box_menu(false);
    for periodic in [false, true] {
        for (bi, b) in boxes.iter().enumerate() {
            if !thorough && bi > 0 && periodic {
                continue;
            }
            let pool = lattice_points(L3A, b, 3, periodic);
            let k = if thorough { 3 } else { 2 };
            let subs = subsets_upto(pool.len(), k);
            let items: Vec<(State, Vec<DVec3>)> = subs
                .iter()
                .map(|s| {
                    let st = make_state(3, periodic, b, "L3a", &pool, s);
                    let extra: Vec<DVec3> = (0..pool.len()).filter(|i| !s.contains(i)).map(|i| pool[i]).collect();
                    (st, extra)
                })
                .collect();
            run.family(format!("3{}|{}|L3a K<={} x extra planes towards all unused lattice points", if periodic { "P" } else { "R" }, b.name, k), items.len() as u64);
            run.explore(&items, eval_c18_guarded, |i| i.0.to_json());
            // generic pool: larger removed sets
            let gp = generic_points(b, 3);
            let kg = if thorough { 5 } else { 3 };
            let subs: Vec<Vec<usize>> = subsets_upto(gp.len(), kg).into_iter().filter(|s| s.len() >= 2).collect();
            let items: Vec<(State, Vec<DVec3>)> = subs
                .iter()
                .map(|s| {
                    let st = make_state(3, periodic, b, "G", &gp, s);
                    let extra: Vec<DVec3> = (0..gp.len()).filter(|i| !s.contains(i)).map(|i| gp[i]).collect();
                    (st, extra)
                })
                .collect();
            run.family(format!("3{}|{}|G 2<=|S|<={} x extra planes towards all unused pool points", if periodic { "P" } else { "R" }, b.name, kg), items.len() as u64);
            run.explore(&items, eval_c18_guarded, |i| i.0.to_json());
        }
    }
    // many-plane cells: a centre generator inside a shell of N generators (cells with > 64 clipping planes)
    {
        let b = boxes[0];
        let mut items: Vec<(State, Vec<DVec3>)> = vec![];
        for nshell in if thorough { vec![40usize, 80, 120, 200, 255, 256, 257, 300, 400] } else { vec![80usize, 120, 300, 400, 500] } {
            let c = b.anchor + 0.5 * b.width;
            let mut gens = vec![c];
            let golden = std::f64::consts::PI * (3. - 5f64.sqrt());
            for k in 0..nshell {
                let y = 1. - 2. * (k as f64 + 0.5) / nshell as f64;
                let r = (1. - y * y).sqrt();
                let th = golden * k as f64;
                // radius jittered deterministically so that the points are in general position
                // (the jitter shrinks with the shell size so that every neighbour keeps its face: more than 255
                // effective clips of one cell for N >= 300)
                let rad = 0.3 * (1. + 0.05 * (40. / nshell as f64).min(1.) * ((k * 7919 % 101) as f64 / 101. - 0.5));
                gens.push(c + v3(r * th.cos(), y, r * th.sin()) * rad * b.width);
            }
            let st = State { id: format!("3R|b0|shell{}|centre+shell", nshell), dim: 3, periodic: false, anchor: b.anchor, width: b.width, gens };
            items.push((st, vec![]));
        }
        run.family("centre generator inside a shell of N generators (cells with more than 64 clipping planes), builder's own clip sequence".to_string(), items.len() as u64);
        run.explore(&items, eval_c18_guarded, |i| J::s(i.0.id.clone()));
    }
    // large removed sets: an m-sided prism whose m top vertices are all removed by one clip (and the axis pair whose
    // shared face has m vertices): builder's own clip sequence, deviation-bounded storage orders
    {
        let mut items: Vec<(State, Vec<DVec3>)> = vec![];
        for m in if thorough { vec![5usize, 8, 12, 16, 17, 24, 31, 32, 33, 40, 64, 65, 72] } else { vec![8usize, 17, 33, 40] } {
            items.push((bigcell_state("prism", m, &boxes[0]), vec![]));
            items.push((bigcell_state("axis", m, &boxes[0]), vec![]));
        }
        run.family("m-sided prism + neighbour above (one clip removes m vertices) and axis pair + ring of m (face with m vertices), builder's own clip sequence".to_string(), items.len() as u64);
        run.explore(&items, eval_c18_guarded, |i| J::s(i.0.id.clone()));
    }
    // long clip histories of one cell (more than 2^16 clipping planes / boundary reconstructions)
    {
        let items: Vec<(usize, bool)> = if thorough { vec![(70_000, false), (70_000, true), (140_000, true)] } else { vec![(70_000, false), (70_000, true)] };
        run.family("long clip histories: a box shaved 70000 times (along x / x, y, z in turn); closedness, volume and storage-order independence at check points".to_string(), items.len() as u64);
        run.explore(&items, eval_c18_long, |i| J::s(format!("{} steps, round robin {}", i.0, i.1)));
    }
    // part B
    let disks = enumerate_disks(if thorough { 7 } else { 6 });
    run.family(format!("triangulated disks with <= {} triangles (up to relabelling)", if thorough { 7 } else { 6 }), disks.len() as u64);
    run.explore(&disks, eval_disk, |d| J::s(format!("{:?}", d.tris)));
}
