//! C06 (periodic = replicated), C08 (1D/2D depend only on active coordinates), C16 (safety radius).

use crate::alpha::*;
use crate::obs::*;
use crate::oracle::*;
use crate::report::*;
use crate::tess::*;
use crate::util::*;
use glam::DVec3;
use meshless_voronoi::integrals::VolumeCentroidIntegral;
use meshless_voronoi::Voronoi;
use std::collections::BTreeMap;

// ---------------------------------------------------------------------------------------------
// C06

fn image_offsets(dim: usize) -> Vec<[i8; 3]> {
    let mut v = vec![];
    let r = |active: bool| if active { -1i8..=1 } else { 0i8..=0 };
    for x in r(true) {
        for y in r(dim >= 2) {
            for z in r(dim >= 3) {
                v.push([x, y, z]);
            }
        }
    }
    v
}

/// Translation alphabet (fractions of the width on active axes).
fn translations(dim: usize) -> Vec<[f64; 3]> {
    let mut v = vec![];
    for ax in 0..dim {
        for k in [1., 4., 5.] {
            let mut t = [0.; 3];
            t[ax] = k / 8.;
            v.push(t);
        }
    }
    v.push([1. / 8., 3. / 8., 5. / 8.]);
    v.push([7. / 8., 7. / 8., 7. / 8.]);
    v.push([0.137, 0.291, 0.618]);
    for t in v.iter_mut() {
        for ax in dim..3 {
            t[ax] = 0.;
        }
    }
    v
}

pub fn eval_c06(st: &State) -> Eval {
    eval_c06_with(st, 3)
}

pub fn eval_c06_with(st: &State, max_rep_n: usize) -> Eval {
    let mut e = Eval::default();
    let check = "c06";
    if !st.periodic {
        return e;
    }
    let t = tol(st);
    let n = st.n();
    let dim = st.dim;
    let x0 = exact_calls_thread();
    let mut h = Fnv::new();
    let case = st.id.clone();
    let rp = || replay_text(check, st, &[]);
    let w = st.norm_width();
    let a = st.norm_anchor();
    let integ = match build_integrator(st, None) {
        Ok(v) => v,
        Err(p) => {
            panic_issue(&mut e, check, st, &case, &[], &p, "VoronoiIntegrator::build(periodic)");
            return e;
        }
    };
    let vor = match build_voronoi(st, None) {
        Ok(v) => v,
        Err(p) => {
            panic_issue(&mut e, check, st, &case, &[], &p, "Voronoi::build(periodic)");
            return e;
        }
    };
    e.impl_runs += 2;
    let vc = integ.compute_cell_integrals::<VolumeCentroidIntegral>();
    let recs = integ.compute_face_integrals::<FaceRec>();
    let lf = lib_cell_faces(st, &recs, n);
    // (c) structure: shifts are lattice vectors (checked by face_key), no boundary face on periodic axes
    for (i, cf) in lf.iter().enumerate() {
        for err in &cf.key_errors {
            e.issue("shift-structure", &case, format!("cell {}: {}", i, err), rp());
        }
        for (k, list) in &cf.by_key {
            if let FaceKey::Wall(wk) = k {
                if ((*wk / 2) as usize) < dim {
                    e.issue("boundary-face-on-periodic-axis", &case, format!("cell {}: boundary face {} (area {:e})", i, k.describe(), list[0].area), rp());
                }
            }
            h.str(&k.describe());
        }
    }
    for (fi, f) in vor.faces().iter().enumerate() {
        e.transitions += 1;
        if f.is_boundary() {
            if let Some(FaceKey::Wall(wk)) = wall_key_from_outward(f.normal()) {
                if ((wk / 2) as usize) < dim {
                    e.issue("boundary-face-on-periodic-axis(stored)", &case, format!("stored face {} is a boundary face along periodic axis", fi), rp());
                }
            }
        }
        match shift_key(st, f.shift()) {
            Err(err) => e.issue("shift-structure(stored)", &case, format!("stored face {}: {}", fi, err), rp()),
            Ok(s) => {
                if f.is_periodic() != (s != [0, 0, 0]) {
                    e.issue("is_periodic-vs-shift", &case, format!("stored face {}", fi), rp());
                }
                // the shift is the image offset that brings the right generator next to the left one:
                // the face centroid must be closer to right+shift than to any other image of right
                if let Some(r) = f.right() {
                    if f.area() > t.neg_area {
                        let gr = st.gen_loc(r);
                        let sh = f.shift().unwrap_or(DVec3::ZERO);
                        let d0 = (gr + sh).distance(f.centroid());
                        let dl = st.gen_loc(f.left()).distance(f.centroid());
                        if !((d0 - dl).abs() <= 64. * t.pos) {
                            e.issue("shift-does-not-place-neighbour", &case, format!("stored face {} ({}->{}): |c-(right+shift)| = {:e} but |c-left| = {:e}", fi, f.left(), r, d0, dl), rp());
                        }
                    }
                }
            }
        }
    }
    // (a) differential: reflective tessellation of the 3^d-fold replicated set, central block. In the tiny box the
    // replicated *reflective* build is itself subject to the known finding R11 whenever an image lies on an outer
    // wall (every lattice generator with a zero coordinate), so the differential oracle is not used there; the
    // independent O-cell comparison (b) and the structural clauses still are.
    let r11_oracle = t.l < 1e-9 && (0..n).any(|j| (0..dim).any(|ax| comp(st.gen_loc(j), ax) == comp(a, ax)));
    if r11_oracle {
        e.count("replicated_reflective_oracle_not_used(tiny box, image on an outer wall: R11)", 1);
    }
    if n <= max_rep_n && !r11_oracle {
        let offs = image_offsets(dim);
        let mut rgens = vec![];
        for o in &offs {
            for j in 0..n {
                rgens.push(st.gen_loc(j) + v3(o[0] as f64 * w.x, o[1] as f64 * w.y, o[2] as f64 * w.z));
            }
        }
        let mut ranchor = a;
        let mut rwidth = w;
        for ax in 0..dim {
            set_comp(&mut ranchor, ax, comp(a, ax) - comp(w, ax));
            set_comp(&mut rwidth, ax, 3. * comp(w, ax));
        }
        let rst = State { id: format!("{}|replicated", st.id), dim, periodic: false, anchor: ranchor, width: rwidth, gens: rgens };
        let central = offs.iter().position(|o| *o == [0, 0, 0]).unwrap();
        match build_integrator(&rst, None) {
            Err(p) => panic_issue(&mut e, check, st, &case, &[], &p, "VoronoiIntegrator::build(replicated, reflective)"),
            Ok(rinteg) => {
                e.impl_runs += 1;
                let rvc = rinteg.compute_cell_integrals::<VolumeCentroidIntegral>();
                let rrecs = rinteg.compute_face_integrals::<FaceRec>();
                let rt = tol(&rst);
                let rlf = lib_cell_faces(&rst, &rrecs, rst.n());
                for i in 0..n {
                    e.transitions += 1;
                    let ri = central * n + i;
                    let vtol = 64. * rt.pos * rt.l.powi(dim as i32 - 1) + 1e-9 * vc[i].volume.abs();
                    if !((vc[i].volume - rvc[ri].volume).abs() <= vtol) {
                        e.issue("volume-vs-replicated", &case, format!("cell {}: periodic volume {:e}, central block of the replicated tessellation {:e}", i, vc[i].volume, rvc[ri].volume), rp());
                    }
                    if vc[i].volume > 1e3 * vtol && !(vc[i].centroid.distance(rvc[ri].centroid) <= 256. * rt.pos * (1. + rt.l.powi(dim as i32) / vc[i].volume)) {
                        e.issue("centroid-vs-replicated", &case, format!("cell {}: periodic centroid {}, replicated {}", i, fmt_vec(vc[i].centroid), fmt_vec(rvc[ri].centroid)), rp());
                    }
                    // face maps: replicated neighbour index -> (j, offset)
                    let mut rmap: BTreeMap<FaceKey, f64> = BTreeMap::new();
                    for (k, list) in &rlf[ri].by_key {
                        match k {
                            FaceKey::Ngb(rj, _) => {
                                let img = rj / n;
                                let j = rj % n;
                                rmap.insert(FaceKey::Ngb(j, offs[img]), list[0].area);
                            }
                            FaceKey::Wall(wk) => {
                                if ((*wk / 2) as usize) < dim && list[0].area > rt.neg_area {
                                    e.issue("replicated-central-cell-touches-wall", &case, format!("cell {}: the central cell of the replicated tessellation touches the outer wall: +-1 images do not suffice?", i), rp());
                                }
                            }
                            _ => {}
                        }
                    }
                    let atol = |x: f64| 64. * rt.pos * rt.l.powi((dim as i32 - 2).max(0)) + 1e-9 * x.abs();
                    for (k, list) in &lf[i].by_key {
                        if !matches!(k, FaceKey::Ngb(..)) {
                            continue;
                        }
                        let ar = list[0].area;
                        match rmap.get(k) {
                            None => {
                                if ar > rt.neg_area + atol(ar) {
                                    e.issue("face-not-in-replicated", &case, format!("cell {}: periodic face {} (area {:e}) has no counterpart in the replicated tessellation", i, k.describe(), ar), rp());
                                }
                            }
                            Some(ra) => {
                                if !((ar - ra).abs() <= atol(ar)) {
                                    e.issue("face-area-vs-replicated", &case, format!("cell {}: face {} area {:e} periodic, {:e} replicated", i, k.describe(), ar, ra), rp());
                                }
                            }
                        }
                    }
                    for (k, ra) in &rmap {
                        if !lf[i].by_key.contains_key(k) && *ra > rt.neg_area + atol(*ra) {
                            e.issue("replicated-face-missing", &case, format!("cell {}: replicated face {} (area {:e}) is not reported by the periodic tessellation", i, k.describe(), ra), rp());
                        }
                    }
                }
            }
        }
    }
    // (d) translations
    for tr in translations(dim) {
        let mut gens2 = vec![];
        for j in 0..n {
            let mut p = st.gens[j];
            for ax in 0..dim {
                let mut c = comp(p, ax) + tr[ax] * comp(w, ax);
                if c >= comp(a, ax) + comp(w, ax) {
                    c -= comp(w, ax);
                }
                if c < comp(a, ax) {
                    c = comp(a, ax);
                }
                set_comp(&mut p, ax, c);
            }
            gens2.push(p);
        }
        let st2 = State { id: format!("{}|translate={:?}", st.id, tr), gens: gens2, ..st.clone() };
        let tcase = st2.id.clone();
        e.transitions += 1;
        match build_integrator(&st2, None) {
            Err(p) => panic_issue(&mut e, check, &st2, &tcase, &[], &p, "VoronoiIntegrator::build(translated)"),
            Ok(i2) => {
                e.impl_runs += 1;
                let vc2 = i2.compute_cell_integrals::<VolumeCentroidIntegral>();
                let recs2 = i2.compute_face_integrals::<FaceRec>();
                let lf2 = lib_cell_faces(&st2, &recs2, n);
                for i in 0..n {
                    let vtol = 64. * t.pos * t.l.powi(dim as i32 - 1) + 1e-9 * vc[i].volume.abs();
                    if !((vc[i].volume - vc2[i].volume).abs() <= vtol) {
                        e.issue("translation-changes-measure", &tcase, format!("cell {}: measure {:e} before, {:e} after the translation", i, vc[i].volume, vc2[i].volume), replay_text(check, &st2, &[]));
                    }
                    // multiset of (neighbour, area), shifts ignored
                    let collect = |m: &LibCellFaces| -> Vec<(usize, f64)> {
                        let mut v: Vec<(usize, f64)> = m
                            .by_key
                            .iter()
                            .filter_map(|(k, l)| match k {
                                FaceKey::Ngb(j, _) if l[0].area > t.neg_area + 64. * t.pos * t.l.powi((dim as i32 - 2).max(0)) => Some((*j, l[0].area)),
                                _ => None,
                            })
                            .collect();
                        v.sort_by(|a, b| a.0.cmp(&b.0).then(a.1.partial_cmp(&b.1).unwrap()));
                        v
                    };
                    let (f1, f2) = (collect(&lf[i]), collect(&lf2[i]));
                    let atol = |x: f64| 256. * t.pos * t.l.powi((dim as i32 - 2).max(0)) + 1e-9 * x.abs();
                    let same = f1.len() == f2.len() && f1.iter().zip(f2.iter()).all(|(p, q)| p.0 == q.0 && (p.1 - q.1).abs() <= atol(p.1));
                    if !same {
                        // near-negligible faces may drop in or out: compare total area per neighbour instead
                        let tot = |f: &Vec<(usize, f64)>| {
                            let mut m: BTreeMap<usize, f64> = BTreeMap::new();
                            for (j, ar) in f {
                                *m.entry(*j).or_insert(0.) += ar;
                            }
                            m
                        };
                        let (m1, m2) = (tot(&f1), tot(&f2));
                        let keys: std::collections::BTreeSet<usize> = m1.keys().chain(m2.keys()).copied().collect();
                        for j in keys {
                            let (x, y) = (m1.get(&j).copied().unwrap_or(0.), m2.get(&j).copied().unwrap_or(0.));
                            if !((x - y).abs() <= 8. * (t.neg_area + atol(x))) {
                                e.issue(
                                    "translation-changes-face-areas",
                                    &tcase,
                                    format!("cell {}: total face area towards generator {} is {:e} before and {:e} after the translation", i, j, x, y),
                                    replay_text(check, &st2, &[]),
                                );
                            }
                        }
                    }
                }
            }
        }
    }
    e.sig = h.finish();
    e.nontrivial = true;
    e.exact_calls = exact_calls_thread() - x0;
    e
}

// ---------------------------------------------------------------------------------------------
// C08

const GEN_VALUES: [f64; 9] = [0., -0., 7.7, -3.3, 1e300, -1e300, f64::NAN, f64::INFINITY, f64::NEG_INFINITY];
const WIDTH_VALUES: [f64; 7] = [1., 0.5, 7.7, 1e300, 1e-300, f64::NAN, f64::INFINITY];

#[derive(Clone, Copy, Debug)]
enum Item {
    Gen(usize, usize),
    Anchor(usize),
    Width(usize),
}

fn apply_item(st: &mut State, it: Item, vi: usize) -> String {
    match it {
        Item::Gen(k, ax) => {
            let v = GEN_VALUES[vi % GEN_VALUES.len()];
            set_comp(&mut st.gens[k], ax, v);
            format!("gen{}[{}]={:?}", k, ax, v)
        }
        Item::Anchor(ax) => {
            let v = GEN_VALUES[vi % GEN_VALUES.len()];
            set_comp(&mut st.anchor, ax, v);
            format!("anchor[{}]={:?}", ax, v)
        }
        Item::Width(ax) => {
            let v = WIDTH_VALUES[vi % WIDTH_VALUES.len()];
            set_comp(&mut st.width, ax, v);
            format!("width[{}]={:?}", ax, v)
        }
    }
}

fn voronoi_digest(v: &Voronoi) -> u64 {
    let mut h = Fnv::new();
    h.vec3(v.anchor());
    h.vec3(v.width());
    h.u64(v.dimensionality() as u64);
    h.u64(v.periodic() as u64);
    for c in v.cells() {
        h.vec3(c.loc());
        h.vec3(c.centroid());
        h.f64(c.volume());
        h.f64(c.safety_radius());
        h.u64(c.face_connections_offset() as u64);
        h.u64(c.face_count() as u64);
    }
    for f in v.faces() {
        h.u64(f.left() as u64);
        h.u64(f.right().map_or(u64::MAX, |r| r as u64));
        match f.shift() {
            None => h.u64(0),
            Some(s) => {
                h.u64(1);
                h.vec3(s)
            }
        }
        h.f64(f.area());
        h.vec3(f.centroid());
        h.vec3(f.normal());
    }
    for c in v.cell_face_connections() {
        h.u64(*c as u64);
    }
    h.finish()
}

fn normal_valid(dim: usize, n: DVec3) -> bool {
    match dim {
        1 => n.y == 0. && n.z == 0.,
        2 => n.z == 0.,
        _ => true,
    }
}

pub fn eval_c08(st: &State) -> Eval {
    let mut e = Eval::default();
    let check = "c08";
    if st.dim == 3 {
        return e;
    }
    let t = tol(st);
    let n = st.n();
    let dim = st.dim;
    let x0 = exact_calls_thread();
    let case = st.id.clone();
    let rp = || replay_text(check, st, &[]);
    let base = match build_voronoi(st, None) {
        Ok(v) => v,
        Err(p) => {
            panic_issue(&mut e, check, st, &case, &[], &p, "Voronoi::build");
            return e;
        }
    };
    e.impl_runs += 1;
    let d0 = voronoi_digest(&base);
    let mut h = Fnv::new();
    // (1) rewriting unused coordinates: bitwise invariance, <= 2 simultaneous deviations
    let mut items: Vec<Item> = vec![];
    for ax in dim..3 {
        for k in 0..n {
            items.push(Item::Gen(k, ax));
        }
        items.push(Item::Anchor(ax));
        items.push(Item::Width(ax));
    }
    let nvals = |it: &Item| match it {
        Item::Width(_) => WIDTH_VALUES.len(),
        _ => GEN_VALUES.len(),
    };
    let mut try_variant = |e: &mut Eval, st2: State, what: String| {
        e.transitions += 1;
        match build_voronoi(&st2, None) {
            Err(p) => panic_issue(e, check, &st2, &format!("{}|{}", st.id, what), &[], &p, "Voronoi::build (unused coordinate rewritten)"),
            Ok(v) => {
                e.impl_runs += 1;
                if voronoi_digest(&v) != d0 {
                    e.issue(
                        "depends-on-unused-coordinate",
                        format!("{}|{}", st.id, what),
                        format!("result changes bitwise when {}", what),
                        replay_text(check, &st2, &[]),
                    );
                }
            }
        }
    };
    for (a, ita) in items.iter().enumerate() {
        for va in 0..nvals(ita) {
            let mut s2 = st.clone();
            let wa = apply_item(&mut s2, *ita, va);
            try_variant(&mut e, s2.clone(), wa.clone());
            // second deviation: every later item with two extreme values
            if n <= 3 {
                for itb in items.iter().skip(a + 1) {
                    for vb in [2usize, 3] {
                        let mut s3 = s2.clone();
                        let wb = apply_item(&mut s3, *itb, vb + 2 * (va % 2));
                        try_variant(&mut e, s3, format!("{};{}", wa, wb));
                    }
                }
            }
        }
    }
    // the integrator route too (single deviations)
    if let Ok(bi) = build_integrator(st, None) {
        let vc0 = bi.compute_cell_integrals::<VolumeCentroidIntegral>();
        for ita in &items {
            let mut s2 = st.clone();
            let wa = apply_item(&mut s2, *ita, 4);
            e.transitions += 1;
            match build_integrator(&s2, None) {
                Err(p) => panic_issue(&mut e, check, &s2, &format!("{}|{}", st.id, wa), &[], &p, "VoronoiIntegrator::build (unused coordinate rewritten)"),
                Ok(i2) => {
                    e.impl_runs += 1;
                    let vc = i2.compute_cell_integrals::<VolumeCentroidIntegral>();
                    let same = vc.len() == vc0.len() && vc.iter().zip(vc0.iter()).all(|(a, b)| a.volume.to_bits() == b.volume.to_bits() && vec_bits(a.centroid) == vec_bits(b.centroid));
                    if !same {
                        e.issue("integrator-depends-on-unused-coordinate", format!("{}|{}", st.id, wa), format!("cell integrals change when {}", wa), replay_text(check, &s2, &[]));
                    }
                }
            }
        }
        // (2) normals in the active subspace, no orthogonal faces, through every face route
        let recs = bi.compute_face_integrals::<FaceRec>();
        let sym = bi.compute_face_integrals_sym::<FaceRec>();
        for (name, list) in [("compute_face_integrals", &recs), ("compute_face_integrals_sym", &sym)] {
            for f in list.iter() {
                let nn = f.integral().n_in;
                if !normal_valid(dim, nn) {
                    e.issue("face-outside-active-subspace", &case, format!("{} reports a face of cell {} with plane normal {}", name, f.left(), fmt_vec(nn)), rp());
                }
                if !((nn.length() - 1.).abs() <= 1e-12) {
                    e.issue("normal-not-unit", &case, format!("{}: plane normal {}", name, fmt_vec(nn)), rp());
                }
            }
        }
    }
    for (fi, f) in base.faces().iter().enumerate() {
        if !normal_valid(dim, f.normal()) || !((f.normal().length() - 1.).abs() <= 1e-12) {
            e.issue("stored-face-outside-active-subspace", &case, format!("stored face {} has normal {}", fi, fmt_vec(f.normal())), rp());
        }
        if let Some(s) = f.shift() {
            if !normal_valid(dim, s) {
                e.issue("shift-outside-active-subspace", &case, format!("stored face {} has shift {}", fi, fmt_vec(s)), rp());
            }
        }
    }
    // (3) 1D closed form
    if dim == 1 {
        let a = st.norm_anchor().x;
        let w = st.norm_width().x;
        let mut order: Vec<usize> = (0..n).collect();
        order.sort_by(|&p, &q| st.gens[p].x.partial_cmp(&st.gens[q].x).unwrap());
        for (pos, &i) in order.iter().enumerate() {
            let x = st.gens[i].x;
            let (lo, lo_ngb): (f64, Option<(usize, i8)>) = if pos > 0 {
                (0.5 * (x + st.gens[order[pos - 1]].x), Some((order[pos - 1], 0)))
            } else if st.periodic {
                (0.5 * (x + st.gens[order[n - 1]].x - w), Some((order[n - 1], -1)))
            } else {
                (a, None)
            };
            let (hi, hi_ngb): (f64, Option<(usize, i8)>) = if pos + 1 < n {
                (0.5 * (x + st.gens[order[pos + 1]].x), Some((order[pos + 1], 0)))
            } else if st.periodic {
                (0.5 * (x + st.gens[order[0]].x + w), Some((order[0], 1)))
            } else {
                (a + w, None)
            };
            let c = &base.cells()[i];
            let ltol = 16. * t.pos;
            if !((c.volume() - (hi - lo)).abs() <= ltol) {
                e.issue("1d-length", &case, format!("cell {}: length {:e}, closed form {:e}", i, c.volume(), hi - lo), rp());
            }
            let cexp = v3(0.5 * (lo + hi), 0., 0.);
            if hi - lo > 1e3 * ltol && !(c.centroid().distance(cexp) <= 16. * ltol * (1. + w / (hi - lo))) {
                e.issue("1d-centroid", &case, format!("cell {}: centroid {}, closed form {}", i, fmt_vec(c.centroid()), fmt_vec(cexp)), rp());
            }
            // two faces of area 1 with the right neighbours
            let faces: Vec<_> = c.faces(&base).collect();
            let mut exp: Vec<(Option<usize>, i8)> = vec![];
            for nb in [lo_ngb, hi_ngb] {
                exp.push(match nb {
                    Some((j, s)) => (Some(j), s),
                    None => (None, 0),
                });
            }
            if faces.len() != 2 {
                e.issue("1d-two-faces", &case, format!("cell {} lists {} faces", i, faces.len()), rp());
            } else {
                for f in &faces {
                    let on_wall = f.right().is_none() && {
                        let wk = if f.normal().x < 0. { 0 } else { 1 };
                        wall_through_generator(st, i, wk, &t)
                    };
                    if !((f.area() - 1.).abs() <= 1e-12) {
                        if on_wall {
                            e.excuse(R9_CLAUSE);
                        } else {
                            e.issue("1d-face-area", &case, format!("cell {}: a face has area {:e} instead of 1", i, f.area()), rp());
                        }
                    }
                }
                // identity of the neighbours (as seen from i)
                let mut got: Vec<(Option<usize>, i8)> = faces
                    .iter()
                    .map(|f| {
                        if f.left() == i {
                            let s = f.shift().map_or(0, |s| (s.x / w).round() as i8);
                            (f.right(), s)
                        } else {
                            (Some(f.left()), 0)
                        }
                    })
                    .collect();
                got.sort();
                exp.sort();
                // with n = 1 or 2 periodic both neighbours can be the same generator
                if got != exp {
                    e.issue("1d-neighbours", &case, format!("cell {}: faces towards {:?}, closed form {:?}", i, got, exp), rp());
                }
            }
            h.u64(faces.len() as u64);
        }
    }
    // (4) 2D = 3D slab
    if dim == 2 {
        let mut s3 = st.clone();
        s3.dim = 3;
        s3.anchor = st.norm_anchor();
        s3.width = st.norm_width();
        s3.gens = (0..n).map(|i| st.gen_loc(i)).collect();
        s3.id = format!("{}|slab3d", st.id);
        e.transitions += 1;
        match build_integrator(&s3, None) {
            Err(p) => panic_issue(&mut e, check, &s3, &s3.id.clone(), &[], &p, "VoronoiIntegrator::build (3D slab)"),
            Ok(i3) => {
                e.impl_runs += 1;
                let vc3 = i3.compute_cell_integrals::<VolumeCentroidIntegral>();
                let recs3 = i3.compute_face_integrals::<FaceRec>();
                let lf3 = lib_cell_faces(&s3, &recs3, n);
                if let Ok(i2) = build_integrator(st, None) {
                    let recs2 = i2.compute_face_integrals::<FaceRec>();
                    let lf2 = lib_cell_faces(st, &recs2, n);
                    for i in 0..n {
                        let c = &base.cells()[i];
                        let vtol = 64. * t.pos * t.l + 1e-9 * c.volume().abs();
                        if !((c.volume() - vc3[i].volume).abs() <= vtol) {
                            e.issue("2d-vs-slab-measure", &case, format!("cell {}: 2D area {:e}, 3D slab volume {:e}", i, c.volume(), vc3[i].volume), rp());
                        }
                        if c.volume() > 1e3 * vtol && !(c.centroid().distance(vc3[i].centroid) <= 256. * t.pos * (1. + t.l * t.l / c.volume())) {
                            e.issue("2d-vs-slab-centroid", &case, format!("cell {}: centroid {} vs {}", i, fmt_vec(c.centroid()), fmt_vec(vc3[i].centroid)), rp());
                        }
                        let atol = |x: f64| 64. * t.pos + 1e-9 * x.abs();
                        for (k, l3) in &lf3[i].by_key {
                            let in_plane = match k {
                                FaceKey::Wall(wk) => *wk < 4,
                                FaceKey::Ngb(_, s) => s[2] == 0,
                                _ => false,
                            };
                            if !in_plane {
                                continue;
                            }
                            let r9 = matches!(k, FaceKey::Wall(wk) if wall_through_generator(st, i, *wk, &t));
                            match lf2[i].by_key.get(k) {
                                None => {
                                    if l3[0].area > t.neg_area + atol(l3[0].area) && !r9 {
                                        e.issue("2d-vs-slab-face-missing", &case, format!("cell {}: slab face {} (area {:e}) is not reported in 2D", i, k.describe(), l3[0].area), rp());
                                    }
                                }
                                Some(l2) => {
                                    if !((l2[0].area - l3[0].area).abs() <= atol(l3[0].area)) {
                                        if r9 {
                                            e.excuse(R9_CLAUSE);
                                        } else {
                                            e.issue("2d-vs-slab-face-area", &case, format!("cell {}: face {} has length {:e} in 2D and area {:e} in the slab", i, k.describe(), l2[0].area, l3[0].area), rp());
                                        }
                                    }
                                }
                            }
                        }
                        for (k, l2) in &lf2[i].by_key {
                            let r9 = matches!(k, FaceKey::Wall(wk) if wall_through_generator(st, i, *wk, &t));
                            if !lf3[i].by_key.contains_key(k) && l2[0].area > t.neg_area + atol(l2[0].area) && !r9 {
                                e.issue("2d-face-not-in-slab", &case, format!("cell {}: 2D face {} (length {:e}) does not exist in the slab", i, k.describe(), l2[0].area), rp());
                            }
                        }
                        h.u64(lf2[i].by_key.len() as u64);
                    }
                }
            }
        }
    }
    e.sig = h.finish();
    e.nontrivial = true;
    e.exact_calls = exact_calls_thread() - x0;
    e
}

// ---------------------------------------------------------------------------------------------
// C16

fn min_image_dist(st: &State, p: DVec3, g: DVec3) -> f64 {
    if !st.periodic {
        return p.distance(g);
    }
    let w = st.norm_width();
    let mut best = f64::INFINITY;
    for o in image_offsets(st.dim) {
        let q = p + v3(o[0] as f64 * w.x, o[1] as f64 * w.y, o[2] as f64 * w.z);
        best = best.min(q.distance(g));
    }
    best
}

pub fn eval_c16(input: &(State, Vec<DVec3>)) -> Eval {
    let (st, pool) = input;
    let mut e = Eval::default();
    let check = "c16";
    let t = tol(st);
    let n = st.n();
    let dim = st.dim;
    let x0 = exact_calls_thread();
    let case = st.id.clone();
    let rp = || replay_text(check, st, &[]);
    let mut h = Fnv::new();
    let vor = match build_voronoi(st, None) {
        Ok(v) => v,
        Err(p) => {
            panic_issue(&mut e, check, st, &case, &[], &p, "Voronoi::build");
            return e;
        }
    };
    let integ = match build_integrator(st, None) {
        Ok(v) => v,
        Err(p) => {
            panic_issue(&mut e, check, st, &case, &[], &p, "VoronoiIntegrator::build");
            return e;
        }
    };
    e.impl_runs += 2;
    let oc = ocells(st);
    let recs = integ.compute_face_integrals::<FaceRec>();
    let lf = lib_cell_faces(st, &recs, n);
    let w = st.norm_width();
    let a = st.norm_anchor();
    // node invariant
    let mut radii = vec![];
    for i in 0..n {
        let r = vor.cells()[i].safety_radius();
        radii.push(r);
        let need = 2. * oc[i].max_vertex_dist_active;
        if !(r >= need - 64. * t.pos) || !r.is_finite() {
            e.issue("radius-below-twice-max-vertex-distance", &case, format!("cell {}: safety radius {:e} < 2 x {:e} (farthest point of the cell in the active subspace)", i, r, oc[i].max_vertex_dist_active), rp());
        }
        // hence >= distance to every face neighbour
        for (k, l) in &lf[i].by_key {
            if let FaceKey::Ngb(j, s) = k {
                if l[0].area > t.neg_area {
                    let gj = st.gen_loc(*j) + v3(s[0] as f64 * w.x, s[1] as f64 * w.y, s[2] as f64 * w.z);
                    let d = gj.distance(st.gen_loc(i));
                    if !(r >= d - 64. * t.pos) {
                        e.issue("radius-below-neighbour-distance", &case, format!("cell {}: safety radius {:e} < distance {:e} to face neighbour {}", i, r, d, k.describe()), rp());
                    }
                }
            }
        }
        h.u64((r / t.l * 16.).round() as u64);
    }
    // the radius is a property of the cell, whatever route reports it: the integrator's convex cells, the conversion of
    // the integrator, the conversion of the integrator with faces, the single-cell partial build
    {
        let conv = guarded(|| Voronoi::from(&integ));
        let conv_wf = if dim == 3 { Some(guarded(|| Voronoi::from(&integ.clone().with_faces()))) } else { None };
        for i in 0..n {
            let mut routes: Vec<(&str, f64)> = vec![];
            if let Ok(c) = &conv {
                routes.push(("Voronoi::from(&integrator)", c.cells()[i].safety_radius()));
            }
            if let Some(Ok(c)) = &conv_wf {
                routes.push(("Voronoi::from(&integrator.with_faces())", c.cells()[i].safety_radius()));
            }
            if n <= 6 {
                let mask: Vec<bool> = (0..n).map(|k| k == i).collect();
                if let Ok(p) = build_voronoi(st, Some(&mask)) {
                    routes.push(("Voronoi::build_partial(only this cell)", p.cells()[i].safety_radius()));
                }
            }
            for (what, r) in routes {
                e.transitions += 1;
                if r.to_bits() != radii[i].to_bits() {
                    e.issue("radius-depends-on-route", &case, format!("cell {}: safety radius {:e} through {}, {:e} in the direct build", i, r, what, radii[i]), rp());
                }
            }
        }
        if matches!(conv, Err(_)) || matches!(conv_wf, Some(Err(_))) {
            e.issue("panic-in-conversion", &case, "Voronoi::from of the integrator (with or without faces) panicked".to_string(), rp());
        }
    }
    // edges: add a generator
    let mut cands: Vec<(String, DVec3)> = vec![];
    for (pi, p) in pool.iter().enumerate() {
        cands.push((format!("L{}", pi), *p));
    }
    // ring alphabet: just outside / just inside each safety ball
    let dirs: Vec<DVec3> = {
        let mut d = vec![];
        for ax in 0..dim {
            let mut v = DVec3::ZERO;
            set_comp(&mut v, ax, 1.);
            d.push(v);
            d.push(-v);
        }
        if dim >= 2 {
            d.push(v3(0.6, 0.8, 0.));
            d.push(v3(-0.8, 0.6, 0.));
        }
        if dim >= 3 {
            d.push(v3(2. / 3., -1. / 3., 2. / 3.));
            d.push(v3(-2. / 7., 6. / 7., -3. / 7.));
        }
        d
    };
    // big states: ring points around the first two cells only (the big cell is cell 0 by construction); the node
    // invariant above is evaluated for every cell
    let ring_cells: Vec<usize> = if n > 16 { vec![0, 1.min(n - 1)] } else { (0..n).collect() };
    for i in ring_cells {
        for (di, d) in dirs.iter().enumerate() {
            for (tag, f) in [("out", 1. + 1. / 1048576.), ("in", 1. - 1. / 1048576.), ("far", 1.25)] {
                let mut p = st.gen_loc(i) + *d * (radii[i] * f);
                if st.periodic {
                    for ax in 0..dim {
                        let mut c = comp(p, ax);
                        while c >= comp(a, ax) + comp(w, ax) {
                            c -= comp(w, ax);
                        }
                        while c < comp(a, ax) {
                            c += comp(w, ax);
                        }
                        set_comp(&mut p, ax, c);
                    }
                }
                let inside = (0..dim).all(|ax| comp(p, ax) >= comp(a, ax) && comp(p, ax) <= comp(a, ax) + comp(w, ax));
                if inside && all_finite(p) {
                    cands.push((format!("ring{}-{}-{}", i, di, tag), p));
                }
            }
        }
    }
    // ... and just inside the safety ball *in the direction of the cell's farthest vertices* (the only place where a
    // generator just inside the ball still cuts the cell): at r (1 - 2^-10) and r (1 - 2^-12) the cut-off corner has a
    // face of about 1e-6 / 6e-8 of the cell's cross-section, far above the negligible threshold
    // (not in the box of 2^-40 length units: a generator 1e-3 of a cell away from another one is 1e-15 length units
    // away there - the regime of the known finding R11, listed under C05)
    for i in if t.l < 1e-6 { vec![] } else if n > 16 { vec![0usize] } else { (0..n).collect::<Vec<usize>>() } {
        let g = st.gen_loc(i);
        let dmax = oc[i].max_vertex_dist_active;
        let mut far_dirs: Vec<DVec3> = vec![];
        for v in &oc[i].verts {
            let mut dv = *v - g;
            for ax in dim..3 {
                set_comp(&mut dv, ax, 0.);
            }
            if dv.length() >= dmax * (1. - 1e-9) && dmax > 0. {
                let u = dv / dv.length();
                if !far_dirs.iter().any(|x| x.distance(u) < 1e-6) {
                    far_dirs.push(u);
                }
            }
        }
        for (di, d) in far_dirs.iter().take(4).enumerate() {
            for (tag, f) in [("vin10", 1. - 1. / 1024.), ("vin12", 1. - 1. / 4096.)] {
                let mut p = g + *d * (radii[i] * f);
                if st.periodic {
                    for ax in 0..dim {
                        let mut c = comp(p, ax);
                        while c >= comp(a, ax) + comp(w, ax) {
                            c -= comp(w, ax);
                        }
                        while c < comp(a, ax) {
                            c += comp(w, ax);
                        }
                        set_comp(&mut p, ax, c);
                    }
                }
                let inside = (0..dim).all(|ax| comp(p, ax) > comp(a, ax) && comp(p, ax) < comp(a, ax) + comp(w, ax));
                if inside && all_finite(p) {
                    cands.push((format!("ring{}-v{}-{}", i, di, tag), p));
                }
            }
        }
    }
    for (name, p) in cands {
        // distinct from existing generators (modulo the period)
        let dmin = (0..n).map(|i| min_image_dist(st, p, st.gen_loc(i))).fold(f64::INFINITY, f64::min);
        if !(dmin > 1e-6 * t.l) {
            continue;
        }
        let mut pp = p;
        // carry the unused coordinates of generator 0 (garbage allowed)
        for ax in dim..3 {
            set_comp(&mut pp, ax, comp(st.gens[0], ax));
        }
        let mut st2 = st.clone();
        st2.gens.push(pp);
        st2.id = format!("{}|add={}", st.id, name);
        let tcase = st2.id.clone();
        e.transitions += 1;
        let i2 = match build_integrator(&st2, None) {
            Ok(v) => v,
            Err(pn) => {
                // adding a generator on an exact tie / wall may hit the R5 class; it is reported by C05's families, here only if the point is a lattice point
                if name.starts_with('L') {
                    panic_issue(&mut e, check, &st2, &tcase, &[], &pn, "VoronoiIntegrator::build (generator added)");
                } else {
                    e.count("ring_candidates_panicking", 1);
                }
                continue;
            }
        };
        e.impl_runs += 1;
        let vc1 = integ.compute_cell_integrals::<VolumeCentroidIntegral>();
        let vc2 = i2.compute_cell_integrals::<VolumeCentroidIntegral>();
        let recs2 = i2.compute_face_integrals::<FaceRec>();
        let lf2 = lib_cell_faces(&st2, &recs2, n + 1);
        // the added generator and the old cells see each other: every face of non-negligible area has its reverse (a cell
        // that stopped looking for neighbours too early misses the face its new neighbour has towards it)
        if name.contains("-vin") || name.ends_with("-in") {
            let rtol = t.neg_area + 64. * t.pos * t.l.powi((dim as i32 - 2).max(0));
            for j in 0..=n {
                for (k, l) in &lf2[j].by_key {
                    if let FaceKey::Ngb(o, sh) = k {
                        if l[0].area > 4. * rtol {
                            let back = FaceKey::Ngb(j, [-sh[0], -sh[1], -sh[2]]);
                            if !lf2[*o].by_key.contains_key(&back) {
                                e.issue("added-generator-face-not-reciprocal", &tcase, format!("cell {} has a face of area {:e} towards {} but cell {} has none towards {}", j, l[0].area, k.describe(), o, back.describe()), replay_text(check, &st2, &[]));
                            }
                        }
                    }
                }
            }
        }
        for i in 0..n {
            let vtol = 64. * t.pos * t.l.powi(dim as i32 - 1) + 1e-9 * vc1[i].volume.abs();
            // monotonicity: no cell grows
            if vc2[i].volume > vc1[i].volume + vtol {
                e.issue("cell-grows-when-generator-added", &tcase, format!("cell {}: measure {:e} -> {:e}", i, vc1[i].volume, vc2[i].volume), replay_text(check, &st2, &[]));
            }
            let d = min_image_dist(st, st2.gen_loc(n), st.gen_loc(i));
            if d > radii[i] * (1. + 1e-12) + 64. * t.pos {
                // outside the safety ball: the cell is unchanged
                if !((vc2[i].volume - vc1[i].volume).abs() <= vtol) {
                    e.issue(
                        "far-generator-changes-cell",
                        &tcase,
                        format!("cell {}: generator added at distance {:e} > safety radius {:e}, measure {:e} -> {:e}", i, d, radii[i], vc1[i].volume, vc2[i].volume),
                        replay_text(check, &st2, &[]),
                    );
                }
                if vc1[i].volume > 1e3 * vtol && !(vc1[i].centroid.distance(vc2[i].centroid) <= 256. * t.pos * (1. + t.l.powi(dim as i32) / vc1[i].volume)) {
                    e.issue("far-generator-changes-centroid", &tcase, format!("cell {}: centroid {} -> {}", i, fmt_vec(vc1[i].centroid), fmt_vec(vc2[i].centroid)), replay_text(check, &st2, &[]));
                }
                let atol = |x: f64| 64. * t.pos * t.l.powi((dim as i32 - 2).max(0)) + 1e-9 * x.abs();
                for (k, l) in &lf[i].by_key {
                    let x = l[0].area;
                    let y = lf2[i].by_key.get(k).map_or(0., |l| l[0].area);
                    let r9 = matches!(k, FaceKey::Wall(wk) if wall_through_generator(st, i, *wk, &t));
                    if !((x - y).abs() <= t.neg_area + atol(x)) && !r9 {
                        e.issue("far-generator-changes-face", &tcase, format!("cell {}: face {} area {:e} -> {:e}", i, k.describe(), x, y), replay_text(check, &st2, &[]));
                    }
                }
                for (k, l) in &lf2[i].by_key {
                    let r9 = matches!(k, FaceKey::Wall(wk) if wall_through_generator(st, i, *wk, &t));
                    if !lf[i].by_key.contains_key(k) && l[0].area > t.neg_area + atol(l[0].area) && !r9 {
                        e.issue("far-generator-adds-face", &tcase, format!("cell {}: new face {} area {:e}", i, k.describe(), l[0].area), replay_text(check, &st2, &[]));
                    }
                }
                e.count("far_relations", 1);
            }
        }
    }
    e.sig = h.finish();
    e.nontrivial = true;
    e.exact_calls = exact_calls_thread() - x0;
    e
}
