#![allow(dead_code, unused_imports, unused_variables)]
//! vcheck: bounded exhaustive exploration of meshless_voronoi (see /verif/DESIGN.md).

mod alpha;
mod bigint;
#[path = "../../common/pipeline.rs"]
mod pipeline;
mod checks;
mod obs;
mod oracle;
mod report;
mod tess;
mod util;

use alpha::*;
use report::*;

fn usage() -> ! {
    eprintln!("usage: vcheck <C01..C20> <quick|thorough> | vcheck replay <path>");
    std::process::exit(2);
}

fn main() {
    util::install_panic_hook();
    let args: Vec<String> = std::env::args().collect();
    if args.len() < 3 {
        usage();
    }
    if args[1] == "replay" {
        std::process::exit(checks::replay(&args[2]));
    }
    if args[1] == "C09REAL" {
        // conformance of the scheduling model with the implementation: the same pipeline on real rayon pools
        let runs = if args[2] == "thorough" { 10 } else { 3 };
        let mut lines = vec![];
        for (i, inp) in pipeline::pipeline_inputs().iter().enumerate() {
            for threads in [1usize, 2, 3, 4, 8, 16, 64] {
                let pool = rayon::ThreadPoolBuilder::new().num_threads(threads).build().expect("pool");
                for run in 0..runs {
                    let d = pool.install(|| pipeline::run_pipeline(inp));
                    lines.push(format!("{}\t{}\t{}\t{:016x}", i, threads, run, d.total()));
                }
            }
        }
        let path = std::env::var("VERIF_C09_REAL_OUT").unwrap_or_else(|_| "/tmp/c09_real.digest".to_string());
        std::fs::write(&path, lines.join("\n") + "\n").expect("write real-rayon digests");
        println!("C09REAL: {} runs on real rayon pools -> {}", lines.len(), path);
        std::process::exit(0);
    }
    let prop = args[1].to_uppercase();
    let tier = args[2].as_str();
    if tier != "quick" && tier != "thorough" {
        usage();
    }
    // a panic that escapes every `guarded` call is a harness error: report where it came from (the hook is silent)
    let code = match util::guarded(|| checks::run(&prop, tier)) {
        Ok(c) => c,
        Err(p) => {
            println!("MACHINERY: unguarded panic in the harness at {}: {}", p.site, p.msg);
            2
        }
    };
    std::process::exit(code);
}

/// Run a per-state evaluation over the E1 families.
pub fn run_e1<F: Fn(&State) -> Eval + Sync>(run: &mut Run, dims: &[usize], periodic: &[bool], max_n: usize, f: F) {
    let fams = e1_families(run.thorough(), dims, periodic);
    for fam in fams {
        let states: Vec<State> = fam.states().into_iter().filter(|s| s.n() <= max_n).collect();
        run.family(fam.describe(), states.len() as u64);
        run.explore(&states, &f, |s| s.to_json());
    }
    let mut med = medium_families(run.thorough(), dims, periodic);
    if dims.contains(&3) && periodic.contains(&false) {
        med.push(("3R big cells: axis pair + ring of m (shared face with m vertices), m-sided prism + neighbour above (one clip removes m vertices), jittered Fibonacci shells (about m planes, 2m-4 vertices)".to_string(), bigcell_family(run.thorough())));
    }
    for (desc, states) in med {
        // the size cap of a quick tier applies to the lattice / pool families, not to the big-cell states
        let big = desc.starts_with("3R big cells");
        let states: Vec<State> = states.into_iter().filter(|s| big || s.n() <= max_n).collect();
        if states.is_empty() {
            continue;
        }
        run.family(desc, states.len() as u64);
        run.explore(&states, &f, |s| s.to_json());
    }
}
