//! O-int: a fixed-width (512 bit) signed integer written for this harness (add, sub, mul, sign),
//! and the exact in-sphere determinant by Laplace expansion along rows (the library expands along
//! the last column with a big-integer crate).

#[derive(Clone, Copy, PartialEq, Eq, Debug)]
pub struct I512 {
    neg: bool,
    mag: [u64; 8],
}

impl I512 {
    pub const ZERO: I512 = I512 { neg: false, mag: [0; 8] };

    pub fn from_i128(v: i128) -> I512 {
        let neg = v < 0;
        let m = v.unsigned_abs();
        let mut mag = [0u64; 8];
        mag[0] = m as u64;
        mag[1] = (m >> 64) as u64;
        I512 { neg, mag }
    }

    pub fn is_zero(&self) -> bool {
        self.mag.iter().all(|&x| x == 0)
    }

    pub fn signum(&self) -> i32 {
        if self.is_zero() {
            0
        } else if self.neg {
            -1
        } else {
            1
        }
    }

    fn cmp_mag(a: &[u64; 8], b: &[u64; 8]) -> std::cmp::Ordering {
        for i in (0..8).rev() {
            if a[i] != b[i] {
                return a[i].cmp(&b[i]);
            }
        }
        std::cmp::Ordering::Equal
    }

    fn add_mag(a: &[u64; 8], b: &[u64; 8]) -> [u64; 8] {
        let mut r = [0u64; 8];
        let mut carry = 0u128;
        for i in 0..8 {
            let s = a[i] as u128 + b[i] as u128 + carry;
            r[i] = s as u64;
            carry = s >> 64;
        }
        assert!(carry == 0, "I512 overflow");
        r
    }

    fn sub_mag(a: &[u64; 8], b: &[u64; 8]) -> [u64; 8] {
        // a >= b
        let mut r = [0u64; 8];
        let mut borrow = 0i128;
        for i in 0..8 {
            let mut s = a[i] as i128 - b[i] as i128 - borrow;
            if s < 0 {
                s += 1i128 << 64;
                borrow = 1;
            } else {
                borrow = 0;
            }
            r[i] = s as u64;
        }
        assert!(borrow == 0);
        r
    }

    pub fn neg(self) -> I512 {
        I512 { neg: !self.neg && !self.is_zero(), mag: self.mag }
    }

    pub fn add(self, o: I512) -> I512 {
        if self.neg == o.neg {
            I512 { neg: self.neg, mag: Self::add_mag(&self.mag, &o.mag) }
        } else {
            match Self::cmp_mag(&self.mag, &o.mag) {
                std::cmp::Ordering::Equal => I512::ZERO,
                std::cmp::Ordering::Greater => I512 { neg: self.neg, mag: Self::sub_mag(&self.mag, &o.mag) },
                std::cmp::Ordering::Less => I512 { neg: o.neg, mag: Self::sub_mag(&o.mag, &self.mag) },
            }
        }
    }

    pub fn sub(self, o: I512) -> I512 {
        self.add(o.neg())
    }

    pub fn mul(self, o: I512) -> I512 {
        let mut r = [0u64; 8];
        for i in 0..8 {
            if self.mag[i] == 0 {
                continue;
            }
            let mut carry = 0u128;
            for j in 0..8 {
                if i + j >= 8 {
                    assert!(o.mag[j] == 0 || self.mag[i] == 0, "I512 overflow in mul");
                    continue;
                }
                let cur = r[i + j] as u128 + (self.mag[i] as u128) * (o.mag[j] as u128) + carry;
                r[i + j] = cur as u64;
                carry = cur >> 64;
            }
            assert!(carry == 0, "I512 overflow in mul");
        }
        let z = r.iter().all(|&x| x == 0);
        I512 { neg: !z && (self.neg != o.neg), mag: r }
    }
}

fn det3(m: [[I512; 3]; 3]) -> I512 {
    // expansion along the first row
    let a = m[1][1].mul(m[2][2]).sub(m[1][2].mul(m[2][1]));
    let b = m[1][0].mul(m[2][2]).sub(m[1][2].mul(m[2][0]));
    let c = m[1][0].mul(m[2][1]).sub(m[1][1].mul(m[2][0]));
    m[0][0].mul(a).sub(m[0][1].mul(b)).add(m[0][2].mul(c))
}

/// Sign of the determinant of the 4x4 matrix whose COLUMNS are the lifted differences
/// (b-a, |b-a|^2), (c-a, ..), (d-a, ..), (v-a, ..): the quantity the library's exact test returns the
/// sign of. Computed by expansion along the first ROW of the transposed matrix.
pub fn in_sphere_det_sign(a: [i64; 3], b: [i64; 3], c: [i64; 3], d: [i64; 3], v: [i64; 3]) -> i32 {
    let lift = |p: [i64; 3]| -> [I512; 4] {
        let dx = p[0] as i128 - a[0] as i128;
        let dy = p[1] as i128 - a[1] as i128;
        let dz = p[2] as i128 - a[2] as i128;
        let (x, y, z) = (I512::from_i128(dx), I512::from_i128(dy), I512::from_i128(dz));
        let n2 = x.mul(x).add(y.mul(y)).add(z.mul(z));
        [x, y, z, n2]
    };
    // rows of the transposed matrix = the four lifted points
    let r = [lift(b), lift(c), lift(d), lift(v)];
    // det(M) = det(M^T): expand along the first row (point b)
    let minor = |skip_col: usize| -> I512 {
        let mut m = [[I512::ZERO; 3]; 3];
        for (ri, row) in r.iter().skip(1).enumerate() {
            let mut ci = 0;
            for col in 0..4 {
                if col == skip_col {
                    continue;
                }
                m[ri][ci] = row[col];
                ci += 1;
            }
        }
        det3(m)
    };
    let mut det = I512::ZERO;
    for col in 0..4 {
        let term = r[0][col].mul(minor(col));
        if col % 2 == 0 {
            det = det.add(term);
        } else {
            det = det.sub(term);
        }
    }
    det.signum()
}

/// Orientation: sign of det(b-a, c-a, d-a).
pub fn orient_sign(a: [i64; 3], b: [i64; 3], c: [i64; 3], d: [i64; 3]) -> i32 {
    let df = |p: [i64; 3]| -> [I512; 3] {
        [
            I512::from_i128(p[0] as i128 - a[0] as i128),
            I512::from_i128(p[1] as i128 - a[1] as i128),
            I512::from_i128(p[2] as i128 - a[2] as i128),
        ]
    };
    det3([df(b), df(c), df(d)]).signum()
}

/// The same determinant in i128 (valid for small coordinates only: |coordinate differences| < 2^20).
pub fn in_sphere_det_i128(a: [i64; 3], b: [i64; 3], c: [i64; 3], d: [i64; 3], v: [i64; 3]) -> i128 {
    let lift = |p: [i64; 3]| -> [i128; 4] {
        let x = (p[0] - a[0]) as i128;
        let y = (p[1] - a[1]) as i128;
        let z = (p[2] - a[2]) as i128;
        [x, y, z, x * x + y * y + z * z]
    };
    let cols = [lift(b), lift(c), lift(d), lift(v)];
    // matrix M[row][col] = cols[col][row]; Leibniz / cofactor along first column
    let m = |r: usize, c: usize| cols[c][r];
    let det3 = |r: [usize; 3], c: [usize; 3]| -> i128 {
        m(r[0], c[0]) * (m(r[1], c[1]) * m(r[2], c[2]) - m(r[1], c[2]) * m(r[2], c[1])) - m(r[0], c[1]) * (m(r[1], c[0]) * m(r[2], c[2]) - m(r[1], c[2]) * m(r[2], c[0]))
            + m(r[0], c[2]) * (m(r[1], c[0]) * m(r[2], c[1]) - m(r[1], c[1]) * m(r[2], c[0]))
    };
    let mut det = 0i128;
    for r in 0..4 {
        let rows: Vec<usize> = (0..4).filter(|&x| x != r).collect();
        let t = m(r, 0) * det3([rows[0], rows[1], rows[2]], [1, 2, 3]);
        if r % 2 == 0 {
            det += t;
        } else {
            det -= t;
        }
    }
    det
}
