#!/usr/bin/env python3
"""Generate /verif/MANIFEST.json from the table below (kept in one place so it stays consistent)."""
import json, subprocess

HOOK_COMMITS = ["fb5632b"]

ENGINES = [
    {"name": "E1 tess", "path": "engine/src/tess.rs, engine/src/oracle.rs, engine/src/checks/",
     "serves_properties": ["C01", "C02", "C03", "C04", "C05", "C06", "C07", "C08", "C12", "C13", "C14", "C15", "C16"],
     "kind_free_text": "explicit-state explorer over tessellation states (dimensionality, boundary kind, box, generator subset, mask); every state is built by the real API and judged by a brute-force Voronoi-cell oracle or by differential relations on transitions (mask flips, translations, added generators, rewritten unused coordinates)"},
    {"name": "E2 sched", "path": "sched/", "serves_properties": ["C09"],
     "kind_free_text": "stateless schedule explorer: the crate is compiled against a drop-in rayon shim whose parallel iterators hand partition / chunk order / worker decisions to the harness, enumerated depth-first with a deviation bound; conformance runs on real rayon"},
    {"name": "E3 pred", "path": "engine/src/checks/c10_11.rs", "serves_properties": ["C10", "C11"],
     "kind_free_text": "exhaustive predicate tables over small integer grids and sign-preserving embeddings into the 52-bit range, per big-integer back end"},
    {"name": "E4 clip", "path": "engine/src/checks/c18.rs", "serves_properties": ["C18"],
     "kind_free_text": "explicit-state search over storage orders of reachable convex cells (all permutations x rotations of removed vertices), confluence + closedness"},
    {"name": "E5 aux", "path": "engine/src/checks/c17.rs, c19.rs, c20.rs", "serves_properties": ["C17", "C19", "C20"],
     "kind_free_text": "exhaustive small-alphabet enumeration of neighbour-visit sequences, geometry helpers, knn and bounding spheres against brute force"},
]

# id -> (engine, technique, level text, level note, design ref)
CHECKS = {
    "C01": ("E1 tess", "explicit-state enumeration of all small generator sets on lattice/generic alphabets; brute-force half-space-intersection oracle on every state",
            "Every cell of every enumerated state (all subsets up to K of each alphabet, 1D/2D/3D, reflective and periodic, box menu) is compared with the definition of a Voronoi cell: volume, centroid, vertex set, complete face list (no missing / spurious neighbour), and the stored face list under the ownership rule. A coverage statement over a finite input space, not a sample.",
            "Oracle = f64 polygon clipping in generator-relative coordinates (independent of the library's dual representation, safety radius and exact predicate); tolerances of DESIGN 1.5; the R9 wall-face finding is excused by a structural selector only for the area/centroid of that face.", "3/C01"),
    "C02": ("E1 tess", "explicit-state enumeration; invariant (positive measures, sum = box measure) on every state",
            "Sum of cell measures = box measure and every measure > 0 in every enumerated state, through Voronoi::build and through VolumeIntegral, including anisotropic/offset boxes and 1D/2D/periodic.",
            "Tolerance proportional to (|anchor|+width) * box surface * n; inputs outside the alphabets not covered.", "3/C02"),
    "C03": ("E1 tess", "explicit-state enumeration of (state, mask) pairs + mask-flip transitions; two-sided face comparison",
            "For every enumerated state: every face seen from cell i is seen from cell j with opposite shift, equal area, shifted centroid, opposite normal (non-symmetric face integrals); for every mask (n <= 4): every shared unshifted face is stored exactly once and listed by both cells, periodic faces come in reciprocal pairs, antisymmetric flux cancels; on every mask-flip edge ownership of unrelated faces is unchanged.",
            "Modulo negligible faces (area <= 1e-9 L^(d-1)), as the property states.", "3/C03"),
    "C04": ("E1 tess", "explicit-state enumeration of (state, mask) pairs; per-face and per-cell invariants",
            "Unit normals along right+shift-left or outward through the wall, centroids on the bisector/wall, closure and divergence identities for every constructed cell of every enumerated (state, mask).",
            "R9 wall faces: oracle area/centroid substituted for that single face in the two identities (known finding).", "3/C04"),
}

NOT_YET = {
}

def main():
    props = [json.loads(l) for l in open('/verif/properties.jsonl')]
    checks = []
    na = []
    for p in props:
        i = p['id']
        if i in CHECKS:
            eng, tech, text, note, ref = CHECKS[i]
            checks.append({
                "property_id": i,
                "quick_cmd": "./check %s quick" % i,
                "thorough_cmd": "./check %s thorough" % i,
                "evidence_file": "/verif/evidence/%s.json" % i,
                "replay_cmd_template": "./check replay {path}",
                "engine": eng,
                "level_claimed": {"category": "model_checking", "text": text, "design_ref": "DESIGN.md section " + ref},
                "level_note": note,
                "technique": tech,
            })
        else:
            na.append({"property_id": i, "reason": NOT_YET.get(i, "check not built yet in this round (design in DESIGN.md section 3); no claim is made")})
    m = {
        "version": 1,
        "setup_cmd": "/verif/scripts/setup.sh",
        "hooks": {
            "guard": "cargo feature verif_hooks of meshless_voronoi (off by default)",
            "enable": "harness crates depend on meshless_voronoi by path /repo with features = [\"verif_hooks\"]",
            "baseline_off_cmd": "/verif/scripts/baseline_off.sh",
            "source_commits": HOOK_COMMITS,
            "add_only": True,
        },
        "engines": ENGINES,
        "checks": checks,
        "not_applicable": na,
        "notes": "Fix commits in /repo (see known_findings.txt 'fixed:' lines): d8c26fa (C04 normal sign), d5646cf (C05/C10 integer grid), 682e940 (C12 inactive cell index), 0e935df (C14 marker trait export), aa2da1c (C20 Space cell positions). Known findings: known_findings.txt + known_findings/.",
    }
    json.dump(m, open('/verif/MANIFEST.json', 'w'), indent=1)
    print("checks:", len(checks), "not_applicable:", len(na))

main()
