#!/bin/bash
# dev.sh <ID> <tier> : run a check of the *working tree* of /verif against a private checkout of /repo's HEAD, so that
# development runs neither wait for nor see seeded changes applied to /repo by try_seed.sh. Never writes /verif/evidence.
[ -d /tmp/devrepo ] || git -C /repo worktree add -q --detach /tmp/devrepo HEAD
git -C /tmp/devrepo checkout -q -- . ; git -C /tmp/devrepo checkout -q --detach "$(git -C /repo rev-parse HEAD)"; cp /repo/Cargo.lock /tmp/devrepo/ 2>/dev/null
# SEED=<patch.diff>: run against the private checkout with that seeded change applied (undone afterwards)
if [ -n "$SEED" ]; then git -C /tmp/devrepo apply "$(readlink -f "$SEED")" || { echo "seed does not apply"; exit 2; }; trap 'git -C /tmp/devrepo checkout -q -- .' EXIT; fi
mkdir -p /tmp/verif_dev
rsync -a --delete --exclude '.git' --exclude 'target*' --exclude 'evidence' /verif/ /tmp/verif_dev/
mkdir -p /tmp/verif_dev/evidence
sed -i 's|path = "/repo"|path = "/tmp/devrepo"|' /tmp/verif_dev/engine/Cargo.toml /tmp/verif_dev/sched/Cargo.toml /tmp/verif_dev/probe_c14/Cargo.toml
cd /tmp/verif_dev && VERIF_HOME=/tmp/verif_dev VERIF_HAVE_REPO_LOCK=1 ./check "$@"; exit $?
