//! Small utilities: JSON output, panic capture, hashing, float helpers.

use glam::DVec3;
use std::collections::HashMap;
use std::fmt::Write as _;
use std::panic::{catch_unwind, AssertUnwindSafe};
use std::sync::Mutex;

// ---------------------------------------------------------------------------------------------
// Panic capture

static PANIC_SITES: Mutex<Option<HashMap<String, String>>> = Mutex::new(None);

/// Install a silent panic hook that records (message -> location).
pub fn install_panic_hook() {
    std::panic::set_hook(Box::new(|info| {
        let msg = payload_to_string(info.payload());
        let loc = info
            .location()
            .map(|l| format!("{}:{}", l.file(), l.line()))
            .unwrap_or_else(|| "?".to_string());
        if let Ok(mut g) = PANIC_SITES.lock() {
            g.get_or_insert_with(HashMap::new).insert(msg, loc);
        }
    }));
}

fn payload_to_string(p: &(dyn std::any::Any + Send)) -> String {
    if let Some(s) = p.downcast_ref::<&str>() {
        s.to_string()
    } else if let Some(s) = p.downcast_ref::<String>() {
        s.clone()
    } else {
        "<non-string panic payload>".to_string()
    }
}

#[derive(Clone, Debug)]
pub struct PanicInfo {
    pub msg: String,
    pub site: String,
}

/// Run `f`, converting a panic into an observation.
pub fn guarded<T>(f: impl FnOnce() -> T) -> Result<T, PanicInfo> {
    match catch_unwind(AssertUnwindSafe(f)) {
        Ok(v) => Ok(v),
        Err(p) => {
            let msg = payload_to_string(&*p);
            let site = PANIC_SITES
                .lock()
                .ok()
                .and_then(|g| g.as_ref().and_then(|m| m.get(&msg).cloned()))
                .unwrap_or_else(|| "?".to_string());
            // normalise the site: strip everything before "src/"
            let site = match site.find("src/") {
                Some(i) => site[i..].to_string(),
                None => site,
            };
            let mut msg = msg;
            if msg.len() > 160 {
                msg.truncate(160);
            }
            Err(PanicInfo { msg, site })
        }
    }
}

// ---------------------------------------------------------------------------------------------
// Hashing (FNV-1a 64)

#[derive(Clone, Copy)]
pub struct Fnv(pub u64);

impl Default for Fnv {
    fn default() -> Self {
        Fnv(0xcbf29ce484222325)
    }
}

impl Fnv {
    pub fn new() -> Self {
        Self::default()
    }
    pub fn bytes(&mut self, b: &[u8]) {
        for &x in b {
            self.0 ^= x as u64;
            self.0 = self.0.wrapping_mul(0x100000001b3);
        }
    }
    pub fn u64(&mut self, v: u64) {
        self.bytes(&v.to_le_bytes());
    }
    pub fn f64(&mut self, v: f64) {
        self.u64(v.to_bits());
    }
    pub fn vec3(&mut self, v: DVec3) {
        self.f64(v.x);
        self.f64(v.y);
        self.f64(v.z);
    }
    pub fn str(&mut self, s: &str) {
        self.bytes(s.as_bytes());
        self.bytes(&[0xff]);
    }
    pub fn finish(&self) -> u64 {
        self.0
    }
}

pub fn hash_str(s: &str) -> u64 {
    let mut h = Fnv::new();
    h.str(s);
    h.finish()
}

// ---------------------------------------------------------------------------------------------
// JSON writing (no external crates)

pub fn json_escape(s: &str) -> String {
    let mut o = String::with_capacity(s.len() + 2);
    o.push('"');
    for c in s.chars() {
        match c {
            '"' => o.push_str("\\\""),
            '\\' => o.push_str("\\\\"),
            '\n' => o.push_str("\\n"),
            '\r' => o.push_str("\\r"),
            '\t' => o.push_str("\\t"),
            c if (c as u32) < 0x20 => {
                let _ = write!(o, "\\u{:04x}", c as u32);
            }
            c => o.push(c),
        }
    }
    o.push('"');
    o
}

/// A minimal JSON value.
#[derive(Clone, Debug)]
pub enum J {
    Null,
    Bool(bool),
    Int(i64),
    Num(f64),
    Str(String),
    Arr(Vec<J>),
    Obj(Vec<(String, J)>),
}

impl J {
    pub fn s(s: impl Into<String>) -> J {
        J::Str(s.into())
    }
    pub fn obj(items: Vec<(&str, J)>) -> J {
        J::Obj(items.into_iter().map(|(k, v)| (k.to_string(), v)).collect())
    }
    pub fn render(&self) -> String {
        let mut o = String::new();
        self.render_into(&mut o, 0);
        o
    }
    fn render_into(&self, o: &mut String, ind: usize) {
        match self {
            J::Null => o.push_str("null"),
            J::Bool(b) => o.push_str(if *b { "true" } else { "false" }),
            J::Int(i) => {
                let _ = write!(o, "{}", i);
            }
            J::Num(f) => {
                if f.is_finite() {
                    let _ = write!(o, "{:e}", f);
                } else {
                    o.push_str("null");
                }
            }
            J::Str(s) => o.push_str(&json_escape(s)),
            J::Arr(a) => {
                if a.is_empty() {
                    o.push_str("[]");
                    return;
                }
                o.push('[');
                for (i, v) in a.iter().enumerate() {
                    if i > 0 {
                        o.push(',');
                    }
                    o.push('\n');
                    o.push_str(&" ".repeat(ind + 1));
                    v.render_into(o, ind + 1);
                }
                o.push('\n');
                o.push_str(&" ".repeat(ind));
                o.push(']');
            }
            J::Obj(m) => {
                if m.is_empty() {
                    o.push_str("{}");
                    return;
                }
                o.push('{');
                for (i, (k, v)) in m.iter().enumerate() {
                    if i > 0 {
                        o.push(',');
                    }
                    o.push('\n');
                    o.push_str(&" ".repeat(ind + 1));
                    o.push_str(&json_escape(k));
                    o.push_str(": ");
                    v.render_into(o, ind + 1);
                }
                o.push('\n');
                o.push_str(&" ".repeat(ind));
                o.push('}');
            }
        }
    }
}

// ---------------------------------------------------------------------------------------------
// Float helpers

pub fn v3(x: f64, y: f64, z: f64) -> DVec3 {
    DVec3::new(x, y, z)
}

pub fn vec_bits(v: DVec3) -> [u64; 3] {
    [v.x.to_bits(), v.y.to_bits(), v.z.to_bits()]
}

pub fn fmt_vec(v: DVec3) -> String {
    format!("({:?},{:?},{:?})", v.x, v.y, v.z)
}

pub fn vec_hex(v: DVec3) -> String {
    format!("{:016x},{:016x},{:016x}", v.x.to_bits(), v.y.to_bits(), v.z.to_bits())
}

pub fn parse_vec_hex(s: &str) -> Option<DVec3> {
    let p: Vec<&str> = s.split(',').collect();
    if p.len() != 3 {
        return None;
    }
    let f = |t: &str| u64::from_str_radix(t.trim(), 16).ok().map(f64::from_bits);
    Some(DVec3::new(f(p[0])?, f(p[1])?, f(p[2])?))
}

pub fn comp(v: DVec3, i: usize) -> f64 {
    match i {
        0 => v.x,
        1 => v.y,
        _ => v.z,
    }
}

pub fn set_comp(v: &mut DVec3, i: usize, x: f64) {
    match i {
        0 => v.x = x,
        1 => v.y = x,
        _ => v.z = x,
    }
}

pub fn all_finite(v: DVec3) -> bool {
    v.x.is_finite() && v.y.is_finite() && v.z.is_finite()
}
