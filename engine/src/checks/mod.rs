pub mod c01_04;
pub mod c07_12_13;

use crate::alpha::*;
use crate::report::*;
use crate::run_e1;

const E1_RULE: &str = "every non-empty subset (size <= K) of each lattice / generic-pool alphabet, for every dimensionality, boundary kind and box of the menu, built by the real API; distinct = distinct combinatorial shape (per cell: set of non-negligible oracle faces and vertex count); non-trivial = at least one cell of positive measure";

pub fn run(prop: &str, tier: &str) -> i32 {
    let mut run = Run::new(prop, tier);
    run.assumptions.push("inputs outside the enumerated alphabets are not covered".to_string());
    run.assumptions.push("tolerances of DESIGN.md section 1.5".to_string());
    match prop {
        "C01" => {
            run.rule = E1_RULE.to_string();
            run.bounds.push("E1 families (see families)".to_string());
            run_e1(&mut run, &[1, 2, 3], &[false, true], 99, c01_04::eval_c01);
        }
        "C02" => {
            run.rule = E1_RULE.to_string();
            run_e1(&mut run, &[1, 2, 3], &[false, true], 99, c01_04::eval_c02);
        }
        "C03" => {
            run.rule = format!("{}; x all 2^n masks (n <= 4) + mask-flip edges", E1_RULE);
            run_e1(&mut run, &[1, 2, 3], &[false, true], 99, c01_04::eval_c03);
        }
        "C04" => {
            run.rule = format!("{}; x all 2^n masks (n <= 3)", E1_RULE);
            run_e1(&mut run, &[1, 2, 3], &[false, true], 99, c01_04::eval_c04);
        }
        "C07" => {
            run.rule = format!("{}; x all 2^n masks (n <= 4 quick / 5 thorough): each node compared bitwise with the full build, so every mask-flip edge is covered by transitivity", E1_RULE);
            let mx = if run.thorough() { 5 } else { 4 };
            run_e1(&mut run, &[1, 2, 3], &[false, true], 99, move |s| c07_12_13::eval_c07_with(s, mx));
        }
        "C12" => {
            run.rule = format!("{}; x all 2^n masks (n <= 4) x routes (direct, From<&VoronoiIntegrator>, with faces)", E1_RULE);
            run_e1(&mut run, &[1, 2, 3], &[false, true], 99, c07_12_13::eval_c12);
        }
        "C13" => {
            run.rule = format!("{}; x all 2^n masks (n <= 4); relations route<->route", E1_RULE);
            run_e1(&mut run, &[1, 2, 3], &[false, true], 99, c07_12_13::eval_c13);
        }
        _ => {
            eprintln!("unknown property {}", prop);
            return 2;
        }
    }
    run.finish()
}

pub fn replay(path: &str) -> i32 {
    let Ok(text) = std::fs::read_to_string(path) else {
        eprintln!("cannot read {}", path);
        return 2;
    };
    let get = |k: &str| text.lines().find_map(|l| l.strip_prefix(&format!("{}=", k)).map(|s| s.to_string()));
    let check = get("check").unwrap_or_default();
    let prop = get("property").unwrap_or_default();
    let clause = get("clause").unwrap_or_default();
    let Some(st) = State::from_replay(&text) else {
        eprintln!("cannot parse state in {}", path);
        return 2;
    };
    let e = match check.as_str() {
        "c01" => c01_04::eval_c01(&st),
        "c02" => c01_04::eval_c02(&st),
        "c03" => c01_04::eval_c03(&st),
        "c04" => c01_04::eval_c04(&st),
        "c07" => c07_12_13::eval_c07_with(&st, 5),
        "c12" => c07_12_13::eval_c12(&st),
        "c13" => c07_12_13::eval_c13(&st),
        _ => {
            eprintln!("unknown check '{}' in {}", check, path);
            return 2;
        }
    };
    println!("replay of {} ({}), recorded clause: {}", path, prop, clause);
    println!("{}", st.to_replay());
    let mut n = 0;
    for i in &e.issues {
        println!("ISSUE clause={} case={}\n   {}", i.clause, i.case, i.detail);
        if i.clause == clause {
            n += 1;
        }
    }
    for (c, k) in &e.excused {
        println!("EXCUSED (known-finding selector) clause={} x{}", c, k);
    }
    if n > 0 {
        println!("REPRODUCED: {} issue(s) with the recorded clause", n);
        1
    } else if !e.issues.is_empty() {
        println!("NOT REPRODUCED with the recorded clause, but other issues were found");
        1
    } else {
        println!("NOT REPRODUCED: the state passes");
        0
    }
}
