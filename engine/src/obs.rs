//! Observation of the library: custom integrals defined by this (downstream) crate, key mapping.

use crate::alpha::State;
use crate::oracle::FaceKey;
use crate::util::*;
use glam::DVec3;
use meshless_voronoi::geometry::{signed_area_tri, signed_volume_tet};
use meshless_voronoi::integrals::{CellIntegral, CellIntegralWithData, FaceIntegral, FaceIntegralWithData};
use meshless_voronoi::{ConvexCell, ConvexCellMarker};

/// Face integral that records what the library feeds to it.
#[derive(Clone, Debug, Default)]
pub struct FaceRec {
    /// Inward plane normal and a point of the plane
    pub n_in: DVec3,
    pub p: DVec3,
    pub plane_idx: usize,
    pub cell_idx: usize,
    pub gen: DVec3,
    pub area: f64,
    pub centroid: DVec3,
    pub tris: u32,
    /// Max distance of a fed triangle vertex from the plane
    pub max_offplane: f64,
    /// Was `gen` always bitwise the cell's generator?
    pub apex_ok: bool,
    /// Second moments of the face about gen (sum of signed triangle integrals of x_a x_b), to compare decompositions
    pub data: u64,
}

impl FaceIntegral for FaceRec {
    fn init<M: ConvexCellMarker>(cell: &ConvexCell<M>, clipping_plane_idx: usize) -> Self {
        let hs = &cell.clipping_planes[clipping_plane_idx];
        FaceRec {
            n_in: hs.plane.n,
            p: hs.plane.p,
            plane_idx: clipping_plane_idx,
            cell_idx: cell.idx,
            gen: cell.loc,
            apex_ok: true,
            ..Default::default()
        }
    }

    fn collect(&mut self, v0: DVec3, v1: DVec3, v2: DVec3, gen: DVec3) {
        let area = signed_area_tri(v0, v1, v2, gen);
        self.area += area;
        self.centroid += area * (v0 + v1 + v2);
        self.tris += 1;
        for v in [v0, v1, v2] {
            let d = (v - self.p).dot(self.n_in).abs();
            if !(d <= self.max_offplane) {
                self.max_offplane = d;
            }
        }
        if vec_bits(gen) != vec_bits(self.gen) {
            self.apex_ok = false;
        }
    }

    fn finalize(mut self) -> Self {
        let normalisation = if self.area > 0. { 1. / (3. * self.area) } else { 0. };
        self.centroid *= normalisation;
        self
    }
}

/// Cell integral that records monomial moments (degree <= 2, relative to the generator) of the
/// signed tetrahedra the library feeds to it.
#[derive(Clone, Debug, Default)]
pub struct CellRec {
    pub cell_idx: usize,
    pub gen: DVec3,
    pub tets: u32,
    pub apex_ok: bool,
    /// 1, x, y, z, xx, xy, xz, yy, yz, zz (relative to gen)
    pub m: [f64; 10],
    /// sum of |signed volume| (to measure cancellation)
    pub abs_vol: f64,
    pub data: u64,
}

impl CellIntegral for CellRec {
    fn init<M: ConvexCellMarker>(cell: &ConvexCell<M>) -> Self {
        CellRec { cell_idx: cell.idx, gen: cell.loc, apex_ok: true, ..Default::default() }
    }

    fn collect(&mut self, v0: DVec3, v1: DVec3, v2: DVec3, gen: DVec3) {
        if vec_bits(gen) != vec_bits(self.gen) {
            self.apex_ok = false;
        }
        self.tets += 1;
        let vol = signed_volume_tet(v0, v1, v2, gen);
        self.abs_vol += vol.abs();
        let (a, b, c) = (v0 - gen, v1 - gen, v2 - gen);
        let s = a + b + c;
        self.m[0] += vol;
        self.m[1] += vol * s.x / 4.;
        self.m[2] += vol * s.y / 4.;
        self.m[3] += vol * s.z / 4.;
        let sec = |fa: fn(DVec3) -> f64, fb: fn(DVec3) -> f64| -> f64 {
            let sa = fa(a) + fa(b) + fa(c);
            let sb = fb(a) + fb(b) + fb(c);
            let sab = fa(a) * fb(a) + fa(b) * fb(b) + fa(c) * fb(c);
            vol / 20. * (sab + sa * sb)
        };
        let (x, y, z): (fn(DVec3) -> f64, fn(DVec3) -> f64, fn(DVec3) -> f64) = (|v| v.x, |v| v.y, |v| v.z);
        self.m[4] += sec(x, x);
        self.m[5] += sec(x, y);
        self.m[6] += sec(x, z);
        self.m[7] += sec(y, y);
        self.m[8] += sec(y, z);
        self.m[9] += sec(z, z);
    }

    fn finalize(self) -> Self {
        self
    }
}

/// Data-carrying variants (implemented through the `*WithData` traits only, like a downstream crate
/// would): the recorded integral plus the datum the library delivered to it.
#[derive(Clone, Debug, Default)]
pub struct CellRecD(pub CellRec);

impl CellIntegralWithData for CellRecD {
    type Data = u64;
    fn init_with_data<M: ConvexCellMarker>(cell: &ConvexCell<M>, data: u64) -> Self {
        let mut r = <CellRec as CellIntegral>::init(cell);
        r.data = data;
        CellRecD(r)
    }
    fn collect(&mut self, v0: DVec3, v1: DVec3, v2: DVec3, gen: DVec3) {
        CellIntegral::collect(&mut self.0, v0, v1, v2, gen)
    }
    fn finalize(self) -> Self {
        CellRecD(CellIntegral::finalize(self.0))
    }
}

#[derive(Clone, Debug, Default)]
pub struct FaceRecD(pub FaceRec);

impl FaceIntegralWithData for FaceRecD {
    type Data = u64;
    fn init_with_data<M: ConvexCellMarker>(cell: &ConvexCell<M>, clipping_plane_idx: usize, data: u64) -> Self {
        let mut r = <FaceRec as FaceIntegral>::init(cell, clipping_plane_idx);
        r.data = data;
        FaceRecD(r)
    }
    fn collect(&mut self, v0: DVec3, v1: DVec3, v2: DVec3, gen: DVec3) {
        FaceIntegral::collect(&mut self.0, v0, v1, v2, gen)
    }
    fn finalize(self) -> Self {
        FaceRecD(FaceIntegral::finalize(self.0))
    }
}

// Re-entrant downstream integrals. The traits put no restriction on what an implementation does while it is being
// fed: a finite-volume code looks at the cell on the other side of a face (its volume, its faces) while it integrates
// over this one. These integrals call back into the library on *another* cell from `init_with_data` and from the first
// `collect`, and otherwise record like `FaceRec` / `CellRec`: what they are fed, and what the nested calls return, must
// be what a plain integral is fed / what the same calls return at top level.

/// Digest of the built-in integrals of one cell (volume, centroid, every face area and centroid): the nested call.
pub fn probe_cell<M: ConvexCellMarker + 'static>(c: &ConvexCell<M>) -> u64 {
    use meshless_voronoi::integrals::{AreaCentroidIntegral, VolumeCentroidIntegral};
    let mut h = Fnv::new();
    let v = c.compute_cell_integral::<(), VolumeCentroidIntegral>(());
    h.u64(v.volume.to_bits());
    for b in vec_bits(v.centroid) {
        h.u64(b);
    }
    for f in c.compute_face_integrals::<(), AreaCentroidIntegral>(()) {
        h.u64(f.integral().area.to_bits());
        for b in vec_bits(f.integral().centroid) {
            h.u64(b);
        }
        h.u64(f.right().map_or(u64::MAX, |r| r as u64));
    }
    h.finish()
}

/// The cell a re-entrant integral of cell `own` looks at: the constructed cell behind the plane, else the first
/// constructed cell that is not `own` (None if there is no other constructed cell).
pub fn reentry_target<M: ConvexCellMarker + 'static>(integ: &meshless_voronoi::VoronoiIntegrator<M>, own: usize, right: Option<usize>) -> Option<&ConvexCell<M>> {
    right.filter(|&r| r != own).and_then(|r| integ.get_cell_at(r)).or_else(|| integ.cells_iter().find(|c| c.idx != own))
}

#[derive(Clone)]
pub struct ReentFace<'a, M: ConvexCellMarker + 'static> {
    pub rec: FaceRec,
    pub probe_init: u64,
    pub probe_collect: u64,
    pub right: Option<usize>,
    integ: &'a meshless_voronoi::VoronoiIntegrator<M>,
}

impl<'a, M: ConvexCellMarker + 'static> FaceIntegralWithData for ReentFace<'a, M> {
    type Data = &'a meshless_voronoi::VoronoiIntegrator<M>;
    fn init_with_data<N: ConvexCellMarker>(cell: &ConvexCell<N>, clipping_plane_idx: usize, data: Self::Data) -> Self {
        let right = cell.clipping_planes[clipping_plane_idx].right_idx;
        let probe_init = reentry_target(data, cell.idx, right).map_or(0, probe_cell);
        ReentFace { rec: <FaceRec as FaceIntegral>::init(cell, clipping_plane_idx), probe_init, probe_collect: 0, right, integ: data }
    }
    fn collect(&mut self, v0: DVec3, v1: DVec3, v2: DVec3, gen: DVec3) {
        if self.rec.tris == 0 {
            self.probe_collect = reentry_target(self.integ, self.rec.cell_idx, self.right).map_or(0, probe_cell);
        }
        FaceIntegral::collect(&mut self.rec, v0, v1, v2, gen)
    }
    fn finalize(mut self) -> Self {
        self.rec = FaceIntegral::finalize(self.rec);
        self
    }
}

pub struct ReentCell<'a, M: ConvexCellMarker + 'static> {
    pub rec: CellRec,
    pub probe_init: u64,
    pub probe_collect: u64,
    integ: &'a meshless_voronoi::VoronoiIntegrator<M>,
}

impl<'a, M: ConvexCellMarker + 'static> CellIntegralWithData for ReentCell<'a, M> {
    type Data = &'a meshless_voronoi::VoronoiIntegrator<M>;
    fn init_with_data<N: ConvexCellMarker>(cell: &ConvexCell<N>, data: Self::Data) -> Self {
        let probe_init = reentry_target(data, cell.idx, None).map_or(0, probe_cell);
        ReentCell { rec: <CellRec as CellIntegral>::init(cell), probe_init, probe_collect: 0, integ: data }
    }
    fn collect(&mut self, v0: DVec3, v1: DVec3, v2: DVec3, gen: DVec3) {
        if self.rec.tets == 0 {
            self.probe_collect = reentry_target(self.integ, self.rec.cell_idx, None).map_or(0, probe_cell);
        }
        CellIntegral::collect(&mut self.rec, v0, v1, v2, gen)
    }
    fn finalize(mut self) -> Self {
        self.rec = CellIntegral::finalize(self.rec);
        self
    }
}

/// The datum handed to the library for generator index i.
pub fn datum(i: usize) -> u64 {
    7 * i as u64 + 3
}

// ---------------------------------------------------------------------------------------------
// Key mapping

/// Map a library shift to integer lattice coordinates; Err if it is not an exact lattice vector
/// with components in {-w, 0, +w} on active axes and 0 elsewhere.
pub fn shift_key(st: &State, shift: Option<DVec3>) -> Result<[i8; 3], String> {
    let w = st.norm_width();
    match shift {
        None => Ok([0, 0, 0]),
        Some(s) => {
            let mut k = [0i8; 3];
            let mut nonzero = false;
            for ax in 0..3 {
                let c = comp(s, ax);
                if c == 0. {
                    k[ax] = 0;
                } else if ax < st.dim && st.periodic && c == comp(w, ax) {
                    k[ax] = 1;
                    nonzero = true;
                } else if ax < st.dim && st.periodic && c == -comp(w, ax) {
                    k[ax] = -1;
                    nonzero = true;
                } else {
                    return Err(format!("shift {} is not a lattice vector of width {}", fmt_vec(s), fmt_vec(w)));
                }
            }
            if !nonzero {
                return Err(format!("shift is Some but zero: {}", fmt_vec(s)));
            }
            Ok(k)
        }
    }
}

/// Wall key from an *outward* normal; None if the normal is not an axis direction.
pub fn wall_key_from_outward(n: DVec3) -> Option<FaceKey> {
    let t = 1e-12;
    let ax = [n.x, n.y, n.z];
    for a in 0..3 {
        let others = (0..3).filter(|&b| b != a).all(|b| ax[b].abs() <= t);
        if others && (ax[a].abs() - 1.).abs() <= t {
            return Some(FaceKey::Wall((2 * a + if ax[a] > 0. { 1 } else { 0 }) as u8));
        }
    }
    None
}

pub fn face_key(st: &State, right: Option<usize>, shift: Option<DVec3>, outward: DVec3) -> Result<FaceKey, String> {
    match right {
        Some(j) => Ok(FaceKey::Ngb(j, shift_key(st, shift)?)),
        None => {
            if shift.is_some() {
                return Err("boundary face with a shift".to_string());
            }
            wall_key_from_outward(outward).ok_or_else(|| format!("boundary face with non-axis normal {}", fmt_vec(outward)))
        }
    }
}

