//! vsched: stateless schedule exploration of meshless_voronoi's parallel regions under a controlled
//! executor (feature `par`), and the sequential reference build (no feature).

#[path = "../../common/pipeline.rs"]
mod pipeline;

use pipeline::*;

fn main() {
    let args: Vec<String> = std::env::args().collect();
    let cmd = args.get(1).map(|s| s.as_str()).unwrap_or("");
    match cmd {
        "seq" => {
            // digests of the build without any parallel feature
            // every input on a fresh thread (fresh thread-locals): the reference of an input must not depend on the
            // inputs before it; a panic is recorded as digest 0
            std::panic::set_hook(Box::new(|_| {}));
            for (i, inp) in pipeline_inputs().into_iter().enumerate() {
                let name = inp.name;
                let r = std::thread::Builder::new().stack_size(64 << 20).spawn(move || run_pipeline(&inp)).expect("spawn").join();
                match r {
                    Ok(d) => {
                        println!("{}\t{:016x}\t{}", i, d.total(), name);
                        for (sname, h, n) in &d.sections {
                            println!("#{}\t{}\t{:016x}\t{}", i, sname, h, n);
                        }
                    }
                    Err(_) => println!("{}\t{:016x}\t{} [PANICKED]", i, 0u64, name),
                }
            }
        }
        #[cfg(feature = "par")]
        "explore" => std::process::exit(explore::main(&args[2..])),
        #[cfg(feature = "par")]
        "replay" => std::process::exit(explore::replay(&args[2])),
        _ => {
            eprintln!("usage: vsched seq | vsched explore <tier> <seq digests> <real-rayon digests> | vsched replay <file>");
            std::process::exit(2);
        }
    }
}

#[cfg(feature = "par")]
mod explore {
    use super::pipeline::*;
    use rayon::{controlled, ChoicePoint};
    use std::collections::{BTreeMap, HashSet};
    use std::time::Instant;

    const W: usize = 2;
    static SHARD: std::sync::atomic::AtomicUsize = std::sync::atomic::AtomicUsize::new(0);
    static SHARDS: std::sync::atomic::AtomicUsize = std::sync::atomic::AtomicUsize::new(1);
    static BRANCH: std::sync::atomic::AtomicUsize = std::sync::atomic::AtomicUsize::new(0);

    struct Stats {
        executions: u64,
        choice_points: u64,
        regions_seen: usize,
        outcomes: HashSet<u64>,
        schedules_sig: HashSet<u64>,
        violations: Vec<(String, String, String)>,
        max_devs: usize,
        capped: Vec<String>,
        /// wall-clock budget of this explorer process (a capped run reports what it completed and is not called exhaustive)
        deadline: Instant,
        timed_out: bool,
    }

    fn run(inp: &PInput, prefix: &[usize]) -> (Digest, Vec<ChoicePoint>, Vec<usize>, Option<String>) {
        controlled(prefix, W, || run_pipeline(inp))
    }

    fn sched_sig(log: &[ChoicePoint]) -> u64 {
        let mut h = 0xcbf29ce484222325u64;
        for c in log {
            h ^= c.chosen as u64 + 1;
            h = h.wrapping_mul(0x100000001b3);
        }
        h
    }

    fn describe(log: &[ChoicePoint]) -> String {
        let mut by_region: BTreeMap<usize, Vec<String>> = BTreeMap::new();
        for c in log {
            if c.chosen != 0 {
                by_region.entry(c.region).or_default().push(format!("{}={}", c.kind, c.chosen));
            }
        }
        if by_region.is_empty() {
            return "default schedule".to_string();
        }
        by_region.iter().map(|(r, v)| format!("region {}: {}", if *r == usize::MAX { "env".to_string() } else { r.to_string() }, v.join(","))).collect::<Vec<_>>().join("; ")
    }

    #[allow(clippy::too_many_arguments)]
    fn dfs(inp_idx: usize, inp: &PInput, reference: &Digest, prefix: Vec<usize>, allowed: &dyn Fn(&ChoicePoint, usize) -> bool, st: &mut Stats, cap: u64, mode: &str) {
        if st.executions >= cap || st.timed_out {
            return;
        }
        if Instant::now() >= st.deadline {
            st.timed_out = true;
            st.capped.push(format!("input {}: wall-clock budget of the explorer process exhausted after {} executions ({})", inp_idx, st.executions, mode));
            return;
        }
        let r = std::panic::catch_unwind(std::panic::AssertUnwindSafe(|| run(inp, &prefix)));
        st.executions += 1;
        let (dig, log, regions, div) = match r {
            Ok(x) => x,
            Err(p) => {
                let msg = p.downcast_ref::<String>().cloned().or_else(|| p.downcast_ref::<&str>().map(|s| s.to_string())).unwrap_or_default();
                st.violations.push((format!("panic under schedule: {}", msg), format!("input {} ({}) {} prefix {:?}", inp_idx, inp.name, mode, prefix), replay_text(inp_idx, &prefix)));
                return;
            }
        };
        if let Some(d) = div {
            // a divergence while replaying a prefix is a hard error of the machinery
            eprintln!("MACHINERY: schedule replay diverged: {}", d);
            std::process::exit(2);
        }
        st.choice_points += log.len() as u64;
        st.regions_seen = st.regions_seen.max(regions.len());
        st.outcomes.insert(dig.total());
        st.schedules_sig.insert(sched_sig(&log));
        let devs = log.iter().filter(|c| c.chosen != 0).count();
        st.max_devs = st.max_devs.max(devs);
        if let Some(diff) = reference.first_difference(&dig) {
            if st.violations.len() < 50 {
                st.violations.push((
                    "result-depends-on-schedule".to_string(),
                    format!("input {} ({}) {}: {}", inp_idx, inp.name, mode, describe(&log)),
                    format!("{}\n{}", replay_text(inp_idx, &log.iter().map(|c| c.chosen).collect::<Vec<_>>()), diff),
                ));
            }
            // keep exploring a little to find the smallest deviation, but do not flood
            if st.violations.len() >= 50 {
                return;
            }
        }
        for i in prefix.len()..log.len() {
            let d = log[..i].iter().filter(|c| c.chosen != 0).count();
            if !allowed(&log[i], d) {
                continue;
            }
            for alt in 1..log[i].arity {
                if prefix.is_empty() {
                    // top level branches are dealt round robin to the shards (processes)
                    let b = BRANCH.fetch_add(1, std::sync::atomic::Ordering::Relaxed);
                    if b % SHARDS.load(std::sync::atomic::Ordering::Relaxed) != SHARD.load(std::sync::atomic::Ordering::Relaxed) {
                        continue;
                    }
                }
                let mut p: Vec<usize> = log[..i].iter().map(|c| c.chosen).collect();
                p.push(alt);
                dfs(inp_idx, inp, reference, p, allowed, st, cap, mode);
            }
        }
    }

    fn replay_text(inp_idx: usize, choices: &[usize]) -> String {
        let mut c = choices.to_vec();
        while c.last() == Some(&0) {
            c.pop();
        }
        format!("check=c09\ninput={}\nworkers={}\nchoices={}", inp_idx, W, c.iter().map(|x| x.to_string()).collect::<Vec<_>>().join(","))
    }

    fn parse_digests(path: &str) -> BTreeMap<usize, (u64, Vec<(String, u64, usize)>)> {
        let mut m: BTreeMap<usize, (u64, Vec<(String, u64, usize)>)> = BTreeMap::new();
        let text = std::fs::read_to_string(path).unwrap_or_default();
        for l in text.lines() {
            let p: Vec<&str> = l.split('\t').collect();
            if let Some(rest) = p[0].strip_prefix('#') {
                if p.len() >= 4 {
                    let i: usize = rest.parse().unwrap_or(usize::MAX);
                    m.entry(i).or_insert((0, vec![])).1.push((p[1].to_string(), u64::from_str_radix(p[2], 16).unwrap_or(0), p[3].parse().unwrap_or(0)));
                }
            } else if p.len() >= 2 {
                if let Ok(i) = p[0].parse::<usize>() {
                    m.entry(i).or_insert((0, vec![])).0 = u64::from_str_radix(p[1], 16).unwrap_or(0);
                }
            }
        }
        m
    }

    fn jesc(s: &str) -> String {
        let mut o = String::from("\"");
        for c in s.chars() {
            match c {
                '"' => o.push_str("\\\""),
                '\\' => o.push_str("\\\\"),
                '\n' => o.push_str("\\n"),
                c if (c as u32) < 0x20 => o.push(' '),
                c => o.push(c),
            }
        }
        o.push('"');
        o
    }


    #[allow(clippy::too_many_arguments)]
    fn explore_input(
        idx: usize,
        inp: &PInput,
        seq: &BTreeMap<usize, (u64, Vec<(String, u64, usize)>)>,
        thorough: bool,
        shard: usize,
        st: &mut Stats,
        bounds: &mut Vec<String>,
        samples: &mut Vec<String>,
        conformance: &mut u64,
        focus_regions_done: &mut u64,
    ) {
            // reference = the default schedule; must be reproducible and equal to the sequential build
            let (reference, log0, regions, _) = run(inp, &[]);
            let (again, _, _, _) = run(inp, &[]);
            st.executions += 2;
            if reference.first_difference(&again).is_some() {
                st.violations.push(("not-reproducible".to_string(), format!("input {} ({}): the default schedule run twice gives different results", idx, inp.name), replay_text(idx, &[])));
            }
            match seq.get(&idx) {
                None => {
                    eprintln!("MACHINERY: no sequential digest for input {}", idx);
                    std::process::exit(2);
                }
                Some((tot, secs)) => {
                    let sd = Digest::from_sections(secs.clone());
                    if *tot != reference.total() {
                        st.violations.push((
                            "parallel-differs-from-sequential-build".to_string(),
                            format!("input {} ({})", idx, inp.name),
                            format!("{}\n{}", replay_text(idx, &[]), sd.first_difference(&reference).unwrap_or_default()),
                        ));
                    }
                    if shard == 0 {
                        *conformance += 1;
                    }
                }
            }
            if !inp.explore {
                // history-only input: reference and sequential conformance only
                return;
            }
            if is_big(inp) && inp.dim == 3 && !thorough {
                // big 3D inputs: sequential / real-rayon conformance in both tiers, schedule exploration in the thorough tier
                return;
            }
            let n = inp.gens.len();
            let nregions = regions.len();
            if shard == 0 {
            samples.push(format!("input {} ({}): {} parallel regions of sizes {:?}, {} choice points in the default schedule", idx, inp.name, nregions, regions, log0.len()));
            }
            if n <= 4 {
                // (A) every region explored exhaustively (all partitions x chunk orders x worker assignments) while the others take the default schedule
                for r in 0..nregions {
                    let before = st.executions;
                    let allowed = move |c: &ChoicePoint, _d: usize| c.region == r;
                    dfs(idx, inp, &reference, vec![], &allowed, st, u64::MAX, &format!("focus region {}", r));
                    if shard == 0 {
                        *focus_regions_done += 1;
                    }
                    if r == 0 {
                        bounds.push(format!("input {}: region {} (n={}) exhaustive: {} schedules", idx, r, regions[r], st.executions - before));
                    }
                }
                bounds.push(format!("input {}: all {} regions explored exhaustively one at a time (W = {})", idx, nregions, W));
                // (B) all pairs of regions with <= 1 deviation each == <= 2 deviations anywhere
                let allowed = |_c: &ChoicePoint, d: usize| d < 2;
                let before = st.executions;
                dfs(idx, inp, &reference, vec![], &allowed, st, u64::MAX, "<= 2 deviations anywhere");
                bounds.push(format!("input {}: all schedules with <= 2 deviations from the default anywhere: {}", idx, st.executions - before));
            } else {
                let dmax = if (thorough && !is_big(inp)) || n <= 8 { 2 } else { 1 };
                let allowed = move |_c: &ChoicePoint, d: usize| d < dmax;
                let before = st.executions;
                let cap = st.executions + if thorough { 3_000_000 } else { 60_000 };
                dfs(idx, inp, &reference, vec![], &allowed, st, cap, &format!("<= {} deviations anywhere", dmax));
                if st.executions >= cap {
                    st.capped.push(format!("input {}: execution cap hit while enumerating <= {} deviations", idx, dmax));
                }
                bounds.push(format!("input {}: all schedules with <= {} deviations from the default anywhere: {}", idx, dmax, st.executions - before));
            }
            // the environment answer current_num_threads is a choice point too (explored when the code asks)
    }

    pub fn main(args: &[String]) -> i32 {
        let tier = args.first().map(|s| s.as_str()).unwrap_or("quick");
        let seq_path = args.get(1).cloned().unwrap_or_default();
        let real_path = args.get(2).cloned().unwrap_or_default();
        let thorough = tier == "thorough";
        let t0 = Instant::now();
        std::panic::set_hook(Box::new(|_| {}));
        let seq = parse_digests(&seq_path);
        let inputs = pipeline_inputs();
        let mut st = Stats { executions: 0, choice_points: 0, regions_seen: 0, outcomes: HashSet::new(), schedules_sig: HashSet::new(), violations: vec![], max_devs: 0, capped: vec![], deadline: Instant::now() + std::time::Duration::from_secs(if thorough { 3000 } else { 75 }), timed_out: false };
        let mut bounds: Vec<String> = vec![];
        let mut samples: Vec<String> = vec![];
        let mut conformance = 0u64;
        let mut focus_regions_done = 0u64;
        if let Ok(child) = std::env::var("VSCHED_CHILD") {
            // child: one (input, shard)
            let p: Vec<usize> = child.split(',').filter_map(|x| x.parse().ok()).collect();
            let (idx, shard, shards) = (p[0], p[1], p[2]);
            SHARD.store(shard, std::sync::atomic::Ordering::Relaxed);
            SHARDS.store(shards, std::sync::atomic::Ordering::Relaxed);
            explore_input(idx, &inputs[idx], &seq, thorough, shard, &mut st, &mut bounds, &mut samples, &mut conformance, &mut focus_regions_done);
            let esc = |s: &str| s.replace('\\', "\\\\").replace('\n', "\\n").replace('\t', " ");
            println!("EXEC\t{}", st.executions);
            println!("CP\t{}", st.choice_points);
            println!("REGIONS\t{}", st.regions_seen);
            println!("FOCUS\t{}", focus_regions_done);
            println!("MAXDEV\t{}", st.max_devs);
            println!("CONF\t{}", conformance);
            for h in &st.schedules_sig {
                println!("SCHED\t{:x}", h);
            }
            for h in &st.outcomes {
                println!("OUTCOME\t{:x}", h);
            }
            for (a, b, c) in &st.violations {
                println!("VIOL\t{}\t{}\t{}", esc(a), esc(b), esc(c));
            }
            for b in &bounds {
                println!("BOUND\t{}", esc(b));
            }
            for b in &samples {
                println!("SAMPLE\t{}", esc(b));
            }
            for b in &st.capped {
                println!("CAP\t{}", esc(b));
            }
            return 0;
        }
        // parent: one child process per (input, shard); fresh worker threads per execution make executions
        // expensive, processes make them parallel
        let exe = std::env::current_exe().unwrap();
        let mut children = vec![];
        for (idx, inp) in inputs.iter().enumerate() {
            let shards = if !inp.explore || inp.gens.len() < 4 { 1 } else if inp.gens.len() == 4 { 4 } else { 5 };
            for sh in 0..shards {
                let c = std::process::Command::new(&exe)
                    .args(["explore", tier, &seq_path, &real_path])
                    .env("VSCHED_CHILD", format!("{},{},{}", idx, sh, shards))
                    .stdout(std::process::Stdio::piped())
                    .spawn()
                    .expect("spawn child explorer");
                children.push((idx, sh, c));
            }
        }
        for (idx, sh, c) in children {
            let out = c.wait_with_output().expect("child output");
            if !out.status.success() {
                eprintln!("MACHINERY: explorer child for input {} shard {} failed: {:?}", idx, sh, out.status);
                return 2;
            }
            let unesc = |s: &str| s.replace("\\n", "\n").replace("\\\\", "\\");
            for l in String::from_utf8_lossy(&out.stdout).lines() {
                let p: Vec<&str> = l.split('\t').collect();
                match p[0] {
                    "EXEC" => st.executions += p[1].parse::<u64>().unwrap_or(0),
                    "CP" => st.choice_points += p[1].parse::<u64>().unwrap_or(0),
                    "REGIONS" => st.regions_seen = st.regions_seen.max(p[1].parse().unwrap_or(0)),
                    "FOCUS" => focus_regions_done += p[1].parse::<u64>().unwrap_or(0),
                    "MAXDEV" => st.max_devs = st.max_devs.max(p[1].parse().unwrap_or(0)),
                    "CONF" => conformance += p[1].parse::<u64>().unwrap_or(0),
                    "SCHED" => {
                        st.schedules_sig.insert(u64::from_str_radix(p[1], 16).unwrap_or(0) ^ ((idx as u64) << 56));
                    }
                    "OUTCOME" => {
                        st.outcomes.insert(u64::from_str_radix(p[1], 16).unwrap_or(0));
                    }
                    "VIOL" if p.len() >= 4 => st.violations.push((unesc(p[1]), unesc(p[2]), unesc(p[3]))),
                    "BOUND" => bounds.push(unesc(p[1])),
                    "SAMPLE" => samples.push(unesc(p[1])),
                    "CAP" => st.capped.push(unesc(p[1])),
                    _ => {}
                }
            }
        }
        // real rayon conformance (separate binary, real thread pools)
        let real = std::fs::read_to_string(&real_path).unwrap_or_default();
        let mut real_runs = 0u64;
        let mut hist_runs = 0u64;
        let mut hist_max_len = 0usize;
        for l in real.lines() {
            let p: Vec<&str> = l.split('\t').collect();
            if p.len() >= 4 && p[0] == "hist" {
                let sq: Vec<usize> = p[1].split('>').filter_map(|x| x.parse().ok()).collect();
                if let (Some(&last), Ok(t)) = (sq.last(), u64::from_str_radix(p[3], 16)) {
                    hist_runs += 1;
                    hist_max_len = hist_max_len.max(sq.len());
                    if let Some((tot, _)) = seq.get(&last) {
                        if *tot != t && st.violations.len() < 60 {
                            st.violations.push((
                                "result-depends-on-call-history".to_string(),
                                format!("inputs {} run one after the other in one pool of {} threads: the result of the last one ({}) differs from its result when run alone", p[1].replace('>', " then "), p[2], inputs.get(last).map_or("?", |i| i.name)),
                                format!("check=c09\nhistory={}\nreal_rayon_threads={}\n", p[1], p[2]),
                            ));
                        }
                    }
                }
                continue;
            }
            if p.len() >= 4 {
                if let (Ok(i), Ok(t)) = (p[0].parse::<usize>(), u64::from_str_radix(p[3], 16)) {
                    real_runs += 1;
                    if let Some((tot, _)) = seq.get(&i) {
                        if *tot != t {
                            st.violations.push((
                                "real-rayon-differs-from-sequential-build".to_string(),
                                format!("input {} with a pool of {} threads, run {}", i, p[1], p[2]),
                                format!("check=c09\ninput={}\nreal_rayon_threads={}\n", i, p[1]),
                            ));
                        }
                    }
                }
            }
        }
        if real_runs == 0 {
            eprintln!("MACHINERY: no real-rayon conformance runs found in {}", real_path);
            return 2;
        }
        // verdict + evidence
        let mut seen = HashSet::new();
        let home = std::env::var("VERIF_HOME").unwrap_or_else(|_| "/verif".to_string());
        let _ = std::fs::create_dir_all(format!("{}/replays", home));
        let mut nvio = 0;
        for (clause, case, replay) in &st.violations {
            nvio += 1;
            if !seen.insert(clause.clone()) && nvio > 6 {
                continue;
            }
            let mut h = 0xcbf29ce484222325u64;
            for b in case.bytes() {
                h ^= b as u64;
                h = h.wrapping_mul(0x100000001b3);
            }
            let path = format!("{}/replays/C09-{:016x}.replay", home, h);
            let _ = std::fs::write(&path, format!("property=C09\nclause={}\ncase={}\n{}\n", clause, case, replay));
            println!("VIOLATION property=C09 replay={}", path);
            println!("  clause={} case={}", clause, case);
        }
        let wall = t0.elapsed().as_secs_f64();
        let seed: i64 = std::env::var("VERIF_SEED").ok().and_then(|s| s.parse().ok()).unwrap_or(0);
        let ev = format!(
            "{{\n \"property_id\": \"C09\",\n \"tier\": {},\n \"seed\": {},\n \"level\": \"model_checking\",\n \"coverage\": {{\n  \"states\": {},\n  \"transitions\": {},\n  \"traces_validated_against_impl\": {},\n  \"samples\": [{}],\n  \"evaluations\": {},\n  \"distinct_nontrivial\": {},\n  \"distinct_outcomes\": {},\n  \"rule\": {},\n  \"exhaustive\": {},\n  \"bounds\": [{}],\n  \"caps_hit\": [{}],\n  \"parallel_regions_per_pipeline_max\": {},\n  \"regions_explored_exhaustively\": {},\n  \"max_deviations_in_one_schedule\": {},\n  \"real_rayon_runs_compared\": {},\n  \"call_histories_compared\": {},\n  \"longest_call_history\": {},\n  \"sequential_build_comparisons\": {}\n }},\n \"assumptions\": [{}],\n \"wall_s\": {:e},\n \"violations\": {}\n}}\n",
            jesc(tier),
            seed,
            st.executions.max(1),
            st.choice_points.max(1),
            real_runs + hist_runs + conformance,
            samples.iter().map(|s| jesc(s)).collect::<Vec<_>>().join(", "),
            st.executions.max(1),
            st.schedules_sig.len(),
            st.outcomes.len(),
            jesc("a state is one complete execution of the whole pipeline (every parallel entry point of the public API) under one schedule = sequence of answers to the choice points (cut after item i, next chunk, worker, current_num_threads); schedules are enumerated depth first: every region exhaustively for inputs with <= 4 generators, all schedules within <= 2 (<= 1 for n = 27 in quick) deviations from the default otherwise; distinct = distinct choice sequences; transitions = choice points answered; the oracle is byte equality of the sectioned digest with the default schedule, the sequential (no rayon) build and real rayon pools of 1..64 threads; call histories: every ordered pair of inputs (thorough: every triple of the history-only inputs too) run one after the other on the persistent workers of one fresh real pool (1 and 2 threads): the last result must equal the result of that input alone"),
            if st.capped.is_empty() { "true" } else { "false" },
            bounds.iter().map(|s| jesc(s)).collect::<Vec<_>>().join(", "),
            st.capped.iter().map(|s| jesc(s)).collect::<Vec<_>>().join(", "),
            st.regions_seen,
            focus_regions_done,
            st.max_devs,
            real_runs,
            hist_runs,
            hist_max_len,
            conformance,
            [
                "scheduling model = rayon's documented contract (contiguous chunks, per-chunk sequential order, order-preserving collect, completion-order side effects), not rayon-core's lock-free internals",
                "real-rayon runs are a conformance sample binding the model to the implementation, not an exhaustive exploration",
                "W = 2 controlled worker threads (real OS threads, one running at a time, persistent for one execution so that thread-locals are real)"
            ]
            .iter()
            .map(|s| jesc(s))
            .collect::<Vec<_>>()
            .join(", "),
            wall,
            nvio
        );
        let evp = std::env::var("VERIF_EVIDENCE_PATH").unwrap_or_else(|_| format!("{}/evidence/C09.json", std::env::var("VERIF_HOME").unwrap_or_else(|_| "/verif".to_string())));
        if std::fs::write(&evp, ev).is_err() {
            eprintln!("MACHINERY: cannot write {}", evp);
            return 2;
        }
        println!(
            "C09 {}: executions={} choice_points={} distinct_schedules={} distinct_outcomes={} regions_exhaustive={} real_rayon_runs={} violations={} wall={:.1}s",
            tier,
            st.executions,
            st.choice_points,
            st.schedules_sig.len(),
            st.outcomes.len(),
            focus_regions_done,
            real_runs,
            nvio,
            wall
        );
        if nvio > 0 {
            1
        } else {
            0
        }
    }

    pub fn replay(path: &str) -> i32 {
        let text = std::fs::read_to_string(path).unwrap_or_default();
        let get = |k: &str| text.lines().find_map(|l| l.strip_prefix(&format!("{}=", k)).map(|s| s.to_string()));
        let Some(idx) = get("input").and_then(|s| s.parse::<usize>().ok()) else {
            eprintln!("no input= line in {}", path);
            return 2;
        };
        let choices: Vec<usize> = get("choices").map(|s| s.split(',').filter_map(|x| x.trim().parse().ok()).collect()).unwrap_or_default();
        let inputs = pipeline_inputs();
        let inp = &inputs[idx];
        let (reference, _, _, _) = run(inp, &[]);
        let (a, log, _, _) = run(inp, &choices);
        let (b, _, _, _) = run(inp, &choices);
        println!("input {} ({}), schedule: {}", idx, inp.name, describe(&log));
        if a.first_difference(&b).is_some() {
            println!("the same schedule replayed twice gives different results");
            return 1;
        }
        match reference.first_difference(&a) {
            Some(d) => {
                println!("REPRODUCED: result differs from the default schedule: {}", d);
                1
            }
            None => {
                println!("NOT REPRODUCED: identical to the default schedule");
                0
            }
        }
    }
}
