#!/bin/bash
# confirm_seed.sh <ID> <k> : confirm in a scratch worktree that seed k of property ID (a) applies,
# (b) passes the repository's own suite, (c) fails its demonstration, which passes without it.
# Writes /verif/seeded/<ID>-<k>/ {patch.diff, demo.*, notes.md, meta.json} on success.
ID="$1"; K="$2"
SRC=/tmp/seed_out/$ID
WT=${CONFIRM_WT:-/tmp/confirm_wt}
export CARGO_NET_OFFLINE=true CARGO_TARGET_DIR=$WT/target CARGO_BUILD_JOBS=${CONFIRM_JOBS:-8}
[ -d $WT ] || git -C /repo worktree add -q --detach $WT HEAD || exit 2
cd $WT && git checkout -q --detach $(git -C /repo rev-parse HEAD) && git checkout -q -- . && git clean -fdq
cp /repo/Cargo.lock $WT/Cargo.lock
suite() { cargo test --workspace --no-fail-fast --offline 2>&1 | grep -E "^test |test result" ; }
summ() { grep -E "^test .*(FAILED|failed)" | grep -v "^test result" | sort | tr '\n' ';'; }
PATCH=$SRC/patch$K.diff
[ -f $PATCH ] || { echo "$ID/$K: no patch"; exit 1; }
if [ -f $SRC/demo$K.rs ]; then DEMO=$SRC/demo$K.rs; KIND=rs; elif [ -f $SRC/demo$K.diff ]; then DEMO=$SRC/demo$K.diff; KIND=diff; else echo "$ID/$K: no demo"; exit 1; fi
put_demo() { if [ $KIND = rs ]; then cp $DEMO tests/demo_seed.rs; else git apply $DEMO || return 1; fi; }
RUNCMD=$(grep -m1 -E "^// RUN:" $DEMO 2>/dev/null | sed 's|^// RUN: *||')
run_demo() { if [ $KIND = rs ]; then if [ -n "$RUNCMD" ]; then eval "$RUNCMD" 2>&1 | grep -E "^test |test result|error(\[|:)"; else cargo test --offline --test demo_seed 2>&1 | grep -E "^test |test result|error(\[|:)"; fi; else cargo test --offline --lib 2>&1 | grep -E "^test |test result|error(\[|:)" | grep -v "^error: test failed"; fi; }
# 1. demo on the unchanged tree
put_demo || { echo "$ID/$K: demo does not apply"; exit 1; }
D0=$(run_demo)
F0=$(echo "$D0" | grep -E "FAILED|failed|error" | grep -v test_non_perturbed_z | grep -v "test result")
git checkout -q -- . && git clean -fdq
# 2. suite with the patch
git apply $PATCH || { echo "$ID/$K: patch does not apply"; exit 1; }
S1=$(suite); S1F=$(echo "$S1" | summ); S1N=$(echo "$S1" | grep -c " ok$")
# 3. demo with the patch
put_demo
D1=$(run_demo)
F1=$(echo "$D1" | grep -E "FAILED|failed|error" | grep -v test_non_perturbed_z | grep -v "test result")
git checkout -q -- . && git clean -fdq
OK=1
[ -z "$F0" ] || { OK=0; echo "$ID/$K: demo FAILS on the unchanged tree: $F0"; }
[ -n "$F1" ] || { OK=0; echo "$ID/$K: demo does NOT fail with the patch"; }
[ "$S1F" = "test voronoi::tests::test_non_perturbed_z ... FAILED;" ] || { OK=0; echo "$ID/$K: suite result differs with the patch: $S1F"; }
[ "$S1N" -ge 40 ] || { OK=0; echo "$ID/$K: suite ran only $S1N ok tests"; }
echo "$ID/$K: ok=$OK suite_ok_tests=$S1N demo_failed_with_patch=$(echo "$F1" | grep -c FAILED)"
if [ $OK = 1 ]; then
  OUT=/verif/seeded/$ID-$K; mkdir -p $OUT
  cp $PATCH $OUT/patch.diff; cp $DEMO $OUT/demo.$KIND; cp $SRC/notes$K.md $OUT/notes.md 2>/dev/null
  python3 - "$ID" "$K" "$S1N" "$OUT" "$KIND" <<'PY'
import json,sys
ID,K,N,OUT,KIND=sys.argv[1:6]
notes=open(OUT+'/notes.md').read() if __import__('os').path.exists(OUT+'/notes.md') else ''
meta={"property":ID,"seed":int(K),"patch":"patch.diff","demo":"demo."+KIND,
 "confirmed":{"applies_to":"/repo HEAD at confirmation time","suite_with_patch":"cargo test --workspace --no-fail-fast --offline: %s tests ok, only the known failure test_non_perturbed_z"%N,
  "demo_without_patch":"pass","demo_with_patch":"fail"},
 "needs_to_manifest":"see notes.md","detected_by":[]}
json.dump(meta,open(OUT+'/meta.json','w'),indent=1)
PY
fi
