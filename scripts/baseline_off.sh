#!/bin/bash
# Runs the repository's own test-suite with the verification guard (cargo feature verif_hooks) OFF.
cd /repo || exit 2
export CARGO_NET_OFFLINE=true
if cargo nextest --version >/dev/null 2>&1; then
  cargo nextest run --workspace --no-fail-fast --offline --test-threads 8
else
  cargo test --workspace --no-fail-fast --offline
fi
