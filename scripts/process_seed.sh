#!/bin/bash
# process_seed.sh <ID> <k>... : confirm sub-agent seeds (scratch worktree) and run the quick matrix on the confirmed ones
ID="$1"; shift
for k in "$@"; do
  /verif/scripts/confirm_seed.sh $ID $k 2>&1 | tail -3
  [ -d /verif/seeded/$ID-$k ] && /verif/scripts/seed_matrix.sh quick $ID-$k 2>&1 | grep -E "^(###|==)"
done
