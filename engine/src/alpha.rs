//! Alphabets: boxes, generator lattices, subsets; the `State` description and its replay format.

use crate::util::*;
use glam::DVec3;
use meshless_voronoi::Dimensionality;

#[derive(Clone, Debug)]
pub struct State {
    /// Human readable canonical id; enough (together with the alphabets) to rebuild the state.
    pub id: String,
    pub dim: usize,
    pub periodic: bool,
    /// Anchor and width as handed to the library (unused axes may carry garbage).
    pub anchor: DVec3,
    pub width: DVec3,
    pub gens: Vec<DVec3>,
}

pub fn dimensionality(dim: usize) -> Dimensionality {
    match dim {
        1 => Dimensionality::OneD,
        2 => Dimensionality::TwoD,
        _ => Dimensionality::ThreeD,
    }
}

impl State {
    pub fn dimensionality(&self) -> Dimensionality {
        dimensionality(self.dim)
    }

    /// Anchor normalised like the library does (unused axes: [-0.5, 0.5]).
    pub fn norm_anchor(&self) -> DVec3 {
        let mut a = self.anchor;
        if self.dim <= 1 {
            a.y = -0.5;
        }
        if self.dim <= 2 {
            a.z = -0.5;
        }
        a
    }

    pub fn norm_width(&self) -> DVec3 {
        let mut w = self.width;
        if self.dim <= 1 {
            w.y = 1.;
        }
        if self.dim <= 2 {
            w.z = 1.;
        }
        w
    }

    /// Generator position as the library sees it (unused coordinates dropped).
    pub fn gen_loc(&self, i: usize) -> DVec3 {
        let mut g = self.gens[i];
        if self.dim <= 1 {
            g.y = 0.;
        }
        if self.dim <= 2 {
            g.z = 0.;
        }
        g
    }

    pub fn n(&self) -> usize {
        self.gens.len()
    }

    /// Largest active width.
    pub fn l_max(&self) -> f64 {
        let w = self.norm_width();
        let mut l: f64 = 0.;
        for a in 0..self.dim {
            l = l.max(comp(w, a));
        }
        l
    }

    /// Largest absolute coordinate of the (normalised) box corners plus largest width: the
    /// magnitude that governs rounding of anything computed in global coordinates.
    pub fn mag(&self) -> f64 {
        let a = self.norm_anchor();
        let w = self.norm_width();
        let mut m: f64 = 0.;
        for k in 0..3 {
            m = m.max(comp(a, k).abs()).max((comp(a, k) + comp(w, k)).abs());
        }
        m + self.l_max()
    }

    /// Measure of the box in the active subspace (unit thickness on unused axes).
    pub fn box_measure(&self) -> f64 {
        let w = self.norm_width();
        w.x * w.y * w.z
    }

    /// Replay text (exact bits).
    pub fn to_replay(&self) -> String {
        let mut s = String::new();
        s.push_str(&format!("id={}\n", self.id));
        s.push_str(&format!("dim={}\n", self.dim));
        s.push_str(&format!("periodic={}\n", self.periodic));
        s.push_str(&format!("anchor={}\n", vec_hex(self.anchor)));
        s.push_str(&format!("width={}\n", vec_hex(self.width)));
        for g in &self.gens {
            s.push_str(&format!("gen={}\n", vec_hex(*g)));
        }
        s.push_str(&format!("# anchor {} width {}\n", fmt_vec(self.anchor), fmt_vec(self.width)));
        for g in &self.gens {
            s.push_str(&format!("# gen {}\n", fmt_vec(*g)));
        }
        s
    }

    pub fn from_replay(text: &str) -> Option<State> {
        let mut st = State {
            id: String::new(),
            dim: 3,
            periodic: false,
            anchor: DVec3::ZERO,
            width: DVec3::ONE,
            gens: vec![],
        };
        for line in text.lines() {
            if line.starts_with('#') {
                continue;
            }
            let Some((k, v)) = line.split_once('=') else { continue };
            match k {
                "id" => st.id = v.to_string(),
                "dim" => st.dim = v.parse().ok()?,
                "periodic" => st.periodic = v == "true",
                "anchor" => st.anchor = parse_vec_hex(v)?,
                "width" => st.width = parse_vec_hex(v)?,
                "gen" => st.gens.push(parse_vec_hex(v)?),
                _ => {}
            }
        }
        Some(st)
    }

    pub fn to_json(&self) -> J {
        J::obj(vec![
            ("id", J::s(self.id.clone())),
            ("dim", J::Int(self.dim as i64)),
            ("periodic", J::Bool(self.periodic)),
            ("anchor", J::s(fmt_vec(self.anchor))),
            ("width", J::s(fmt_vec(self.width))),
            ("generators", J::Arr(self.gens.iter().map(|g| J::s(fmt_vec(*g))).collect())),
        ])
    }
}

// ---------------------------------------------------------------------------------------------
// Boxes

#[derive(Clone, Copy, Debug)]
pub struct BoxSpec {
    pub name: &'static str,
    pub anchor: DVec3,
    pub width: DVec3,
}

pub fn box_menu(thorough: bool) -> Vec<BoxSpec> {
    let mut v = vec![
        BoxSpec { name: "b0", anchor: v3(0., 0., 0.), width: v3(1., 1., 1.) },
        BoxSpec { name: "b1", anchor: v3(-3., 10., 0.5), width: v3(4., 1., 0.25) },
        BoxSpec { name: "b2", anchor: v3(1000., 1000., 1000.), width: v3(1., 2., 8.) },
    ];
    if thorough {
        v.push(BoxSpec { name: "b3", anchor: v3(-0.5, -0.5, -0.5), width: v3(1., 1., 64.) });
        v.push(BoxSpec { name: "b4", anchor: v3(1024., -1024., 0.), width: v3(0.0625, 1., 16.) });
        v.push(BoxSpec { name: "b5", anchor: v3(0., 0., 0.), width: v3(3., 10., 6.) });
    }
    v
}

/// Extreme length scales (the tessellation is scale free: every tolerance of the library must be relative):
/// a box of about 1e-12 length units and one of about 1e6 far from the origin. (A 2D/1D box is a slab of unit
/// thickness: at 1e6 its aspect ratio already costs 1e-10 of relative accuracy in the face areas, which are norms
/// of 3D cross products; 1e12 would cost 1e-4 and is conditioning, not a defect.)
pub fn scaled_boxes() -> Vec<BoxSpec> {
    let t = (2f64).powi(-40);
    let h = (2f64).powi(20);
    vec![
        BoxSpec { name: "bt", anchor: v3(0., 0., 0.), width: v3(t, 2. * t, t) },
        BoxSpec { name: "bh", anchor: v3(h, -2. * h, 0.), width: v3(h, h, 2. * h) },
        // a box of ordinary size far from the origin: coordinates carry 26 bits of magnitude that the geometry does
        // not need (anything stored or compared in reduced precision, or with a tolerance relative to the
        // coordinates instead of the box, fails here); translation by a power of two keeps the lattice alphabets exact
        BoxSpec { name: "bf", anchor: v3(h * 64., -h * 64., h * 32.), width: v3(1., 2., 1.) },
    ]
}

pub fn box_by_name(name: &str) -> Option<BoxSpec> {
    box_menu(true).into_iter().chain(scaled_boxes()).find(|b| b.name == name)
}

/// Garbage written into the unused axes of 1D/2D inputs.
pub const GARBAGE: [f64; 3] = [7.7, -3.3, 1e300];

// ---------------------------------------------------------------------------------------------
// Lattice alphabets

/// A lattice alphabet: points anchor + k/m * width, k in 0..=m (reflective) or 0..m (periodic), on
/// the first `dim` axes.
#[derive(Clone, Copy, Debug)]
pub struct Lattice {
    pub name: &'static str,
    pub m: usize,
}

pub const L3A: Lattice = Lattice { name: "L3a", m: 2 };
pub const L3B: Lattice = Lattice { name: "L3b", m: 4 };
pub const L2: Lattice = Lattice { name: "L2", m: 4 };
pub const L1: Lattice = Lattice { name: "L1", m: 8 };
/// Thirds: non-dyadic.
pub const L3T: Lattice = Lattice { name: "L3t", m: 3 };

pub fn lattice_by_name(name: &str) -> Option<Lattice> {
    [L3A, L3B, L2, L1, L3T, Lattice { name: "L3q", m: 4 }, Lattice { name: "L2h", m: 2 }, Lattice { name: "L3i", m: 2 }]
        .into_iter()
        .find(|l| l.name == name)
}

/// All lattice points (index -> position) of the given lattice in the given box.
pub fn lattice_points(l: Lattice, b: &BoxSpec, dim: usize, periodic: bool) -> Vec<DVec3> {
    let hi = if periodic { l.m } else { l.m + 1 };
    let mut pts = vec![];
    let r = |active: bool| if active { 0..hi } else { 0..1 };
    for i in r(true) {
        for j in r(dim >= 2) {
            for k in r(dim >= 3) {
                let f = v3(i as f64, j as f64, k as f64) / (l.m as f64);
                let mut p = b.anchor + f * b.width;
                // unused axes carry garbage
                if dim <= 1 {
                    p.y = GARBAGE[(i + 1) % 3];
                }
                if dim <= 2 {
                    p.z = GARBAGE[(i + j) % 3];
                }
                pts.push(p);
            }
        }
    }
    pts
}

/// Generic (non-lattice) pool: fractions of the box, committed constants.
pub const GENERIC_POOL: [[f64; 3]; 10] = [
    [0.137, 0.291, 0.618],
    [0.803, 0.127, 0.344],
    [0.412, 0.733, 0.129],
    [0.659, 0.581, 0.867],
    [0.231, 0.876, 0.472],
    [0.918, 0.694, 0.213],
    [0.547, 0.049, 0.751],
    [0.076, 0.512, 0.093],
    [0.364, 0.318, 0.936],
    [0.772, 0.943, 0.587],
];

pub fn generic_points(b: &BoxSpec, dim: usize) -> Vec<DVec3> {
    GENERIC_POOL
        .iter()
        .enumerate()
        .map(|(i, f)| {
            let mut p = b.anchor + v3(f[0], f[1], f[2]) * b.width;
            if dim <= 1 {
                p.y = GARBAGE[i % 3];
            }
            if dim <= 2 {
                p.z = GARBAGE[(i + 1) % 3];
            }
            p
        })
        .collect()
}

// ---------------------------------------------------------------------------------------------
// Subsets

/// All non-empty subsets of 0..n with at most k elements, in order of size then lexicographic.
pub fn subsets_upto(n: usize, k: usize) -> Vec<Vec<usize>> {
    let mut out = vec![];
    for size in 1..=k.min(n) {
        let mut cur: Vec<usize> = (0..size).collect();
        loop {
            out.push(cur.clone());
            // next combination
            let mut i = size;
            let mut done = true;
            while i > 0 {
                i -= 1;
                if cur[i] != i + n - size {
                    cur[i] += 1;
                    for j in i + 1..size {
                        cur[j] = cur[j - 1] + 1;
                    }
                    done = false;
                    break;
                }
            }
            if done {
                break;
            }
        }
    }
    out
}

pub fn idx_list(s: &[usize]) -> String {
    s.iter().map(|i| i.to_string()).collect::<Vec<_>>().join(",")
}

pub fn dim_tag(dim: usize, periodic: bool) -> String {
    format!("{}{}", dim, if periodic { "P" } else { "R" })
}

/// Build the state for a subset of a point pool.
pub fn make_state(dim: usize, periodic: bool, b: &BoxSpec, alpha: &str, pool: &[DVec3], sub: &[usize]) -> State {
    let mut anchor = b.anchor;
    let mut width = b.width;
    // garbage in unused axes of the box
    if dim <= 1 {
        anchor.y = 7.7;
        width.y = 1e300;
    }
    if dim <= 2 {
        anchor.z = -1e300;
        width.z = 3.3;
    }
    State {
        id: format!("{}|{}|{}|{}", dim_tag(dim, periodic), b.name, alpha, idx_list(sub)),
        dim,
        periodic,
        anchor,
        width,
        gens: sub.iter().map(|&i| pool[i]).collect(),
    }
}

/// The standard E1 state family.
///
/// quick: 3D Λ3a K<=3 reflective, 3D periodic {0..3}/4 K<=2 and {0,1}/2 K<=4, 2D Λ2 K<=3, 1D Λ1 all,
/// generic pool K<=3; boxes b0..b2.
/// thorough: K+1 / more boxes / Λ3b.
pub struct Family {
    pub dim: usize,
    pub periodic: bool,
    pub bx: BoxSpec,
    pub alpha: String,
    pub pool: Vec<DVec3>,
    pub k: usize,
}

impl Family {
    pub fn states(&self) -> Vec<State> {
        subsets_upto(self.pool.len(), self.k)
            .iter()
            .map(|s| make_state(self.dim, self.periodic, &self.bx, &self.alpha, &self.pool, s))
            .collect()
    }
    pub fn count(&self) -> usize {
        subsets_upto(self.pool.len(), self.k).len()
    }
    pub fn describe(&self) -> String {
        format!("{}|{}|{} pool={} K<={}", dim_tag(self.dim, self.periodic), self.bx.name, self.alpha, self.pool.len(), self.k)
    }
}

pub fn e1_families(thorough: bool, dims: &[usize], periodic_opts: &[bool]) -> Vec<Family> {
    let all = e1_families_all(thorough, dims, periodic_opts);
    // development aid: VERIF_FAMILY_FILTER=<substring of the alphabet name> restricts a run to those families (never set
    // by the registered commands; the evidence of such a run lists the families it explored)
    match std::env::var("VERIF_FAMILY_FILTER") {
        Ok(f) if !f.is_empty() => all.into_iter().filter(|x| x.alpha.contains(&f)).collect(),
        _ => all,
    }
}

fn e1_families_all(thorough: bool, dims: &[usize], periodic_opts: &[bool]) -> Vec<Family> {
    let mut fams = vec![];
    let boxes = box_menu(thorough);
    for &dim in dims {
        for &periodic in periodic_opts {
            for b in &boxes {
                // periodic boxes are closed: a generator may sit exactly on an *upper* wall (it is the same point of the
                // torus as the one on the lower wall, but another coordinate value: `loc()`, centroids and shifts must be
                // reported relative to the position that was passed in). The upper-closed variant {1..m}/m of each lattice,
                // one size smaller.
                if periodic {
                    let (l, name, k) = match dim {
                        3 => (L3A, "L3aU", if thorough { 3 } else { 2 }),
                        2 => (L2, "L2U", if thorough { 3 } else { 2 }),
                        _ => (L1, "L1U", 3),
                    };
                    let step = b.width / (l.m as f64);
                    let pool: Vec<DVec3> = lattice_points(l, b, dim, true)
                        .into_iter()
                        .map(|mut p| {
                            for ax in 0..dim {
                                let v = comp(p, ax) + comp(step, ax);
                                set_comp(&mut p, ax, v);
                            }
                            p
                        })
                        .collect();
                    fams.push(Family { dim, periodic, bx: *b, alpha: name.to_string(), pool, k });
                }
                let mut add = |alpha: &str, l: Option<Lattice>, k: usize| {
                    let pool = match l {
                        Some(l) => lattice_points(l, b, dim, periodic),
                        None => generic_points(b, dim),
                    };
                    fams.push(Family { dim, periodic, bx: *b, alpha: alpha.to_string(), pool, k });
                };
                match (dim, periodic, thorough) {
                    (3, false, false) => {
                        add("L3a", Some(L3A), 3);
                        add("G", None, 3);
                    }
                    (3, false, true) => {
                        add("L3a", Some(L3A), 4);
                        add("L3b", Some(L3B), 2);
                        add("G", None, 4);
                    }
                    (3, true, false) => {
                        add("L3a", Some(L3A), 4);
                        add("L3b", Some(L3B), 2);
                        add("G", None, 2);
                    }
                    (3, true, true) => {
                        add("L3a", Some(L3A), 5);
                        add("L3b", Some(L3B), 2);
                        add("G", None, 3);
                    }
                    (2, _, false) => {
                        add("L2", Some(L2), 3);
                        add("G", None, 3);
                    }
                    (2, _, true) => {
                        add("L2", Some(L2), 4);
                        add("G", None, 4);
                    }
                    (1, _, false) => {
                        add("L1", Some(L1), 9);
                        add("G", None, 3);
                    }
                    (1, _, true) => {
                        add("L1", Some(L1), 9);
                        add("G", None, 5);
                    }
                    _ => {}
                }
            }
        }
    }
    // extreme length scales. Reflective boxes use alphabets without wall contact (general-position pool and the
    // cell-centred lattice, which still has exact ties everywhere): a generator on a wall of the tiny box is the
    // known finding R11 (C05 family E); periodic boxes have no walls and use the ordinary lattices.
    for &dim in dims {
        for &periodic in periodic_opts {
            for b in &scaled_boxes() {
                let mut add = |alpha: &str, pool: Vec<DVec3>, k: usize| {
                    fams.push(Family { dim, periodic, bx: *b, alpha: alpha.to_string(), pool, k });
                };
                let extra = usize::from(thorough);
                add("G", generic_points(b, dim), 3 + extra);
                match (dim, periodic) {
                    (3, true) => add("L3a", lattice_points(L3A, b, 3, true), 3 + extra),
                    (2, true) => add("L2", lattice_points(L2, b, 2, true), 2 + extra),
                    (1, true) => add("L1", lattice_points(L1, b, 1, true), 3 + extra),
                    (1, false) => add("L4c", centred_lattice_points(4, b, 1), 4),
                    (d, false) => add("L2c", centred_lattice_points(2, b, d), 3 + extra),
                    _ => {}
                }
            }
        }
    }
    fams
}

/// All masks of n cells.
pub fn all_masks(n: usize) -> Vec<Vec<bool>> {
    (0..(1usize << n)).map(|m| (0..n).map(|i| (m >> i) & 1 == 1).collect()).collect()
}

pub fn mask_str(m: &[bool]) -> String {
    m.iter().map(|&b| if b { '1' } else { '0' }).collect()
}

pub fn parse_mask(s: &str) -> Vec<bool> {
    s.chars().map(|c| c == '1').collect()
}

// ---------------------------------------------------------------------------------------------
// Deviation-bounded medium / large states

/// Cell-centred m^d lattice: positions anchor + (2k+1)/(2m) * width (all dyadic for m = 2, 4: exact ties
/// everywhere, no generator on a wall).
pub fn centred_lattice_points(m: usize, b: &BoxSpec, dim: usize) -> Vec<DVec3> {
    let mut pts = vec![];
    let r = |active: bool| if active { 0..m } else { 0..1 };
    for i in r(true) {
        for j in r(dim >= 2) {
            for k in r(dim >= 3) {
                let f = v3((2 * i + 1) as f64, (2 * j + 1) as f64, (2 * k + 1) as f64) / (2 * m) as f64;
                let mut p = b.anchor + f * b.width;
                if dim <= 1 {
                    p.y = GARBAGE[(i + 1) % 3];
                }
                if dim <= 2 {
                    p.z = GARBAGE[(i + j) % 3];
                }
                pts.push(p);
            }
        }
    }
    pts
}

/// A fixed pseudo-random (Kronecker sequence) pool of `n` points in general position: committed by construction
/// (pure function of the index), the same for every run and seed.
pub fn kronecker_points(n: usize, b: &BoxSpec, dim: usize) -> Vec<DVec3> {
    // reciprocals of the plastic-number family: a classical low-discrepancy additive recurrence
    let (a1, a2, a3) = (0.819_172_513_396_164_4_f64, 0.671_043_606_703_789_2_f64, 0.549_700_477_901_970_2_f64);
    (0..n)
        .map(|i| {
            let t = (i + 1) as f64;
            let f = v3((0.5 + a1 * t).fract(), (0.5 + a2 * t).fract(), (0.5 + a3 * t).fract());
            // keep away from the walls by 1/64 so that no generic cell degenerates against a wall
            let f = v3(1. / 64., 1. / 64., 1. / 64.) + f * (1. - 1. / 32.);
            let mut p = b.anchor + f * b.width;
            if dim <= 1 {
                p.y = GARBAGE[i % 3];
            }
            if dim <= 2 {
                p.z = GARBAGE[(i + 1) % 3];
            }
            p
        })
        .collect()
}

/// All subsets of 0..n whose complement has at most r elements (the full set first).
pub fn complement_subsets(n: usize, r: usize) -> Vec<Vec<usize>> {
    let mut out = vec![(0..n).collect::<Vec<usize>>()];
    for rem in subsets_upto(n, r.min(n.saturating_sub(1))) {
        out.push((0..n).filter(|i| !rem.contains(i)).collect());
    }
    out
}

fn removed_tag(n: usize, sub: &[usize]) -> String {
    let rem: Vec<usize> = (0..n).filter(|i| !sub.contains(i)).collect();
    format!("all-{}", if rem.is_empty() { "0".to_string() } else { format!("[{}]", idx_list(&rem)) })
}

/// State of a deviation-bounded family: the whole pool minus the listed complement.
pub fn make_state_complement(dim: usize, periodic: bool, b: &BoxSpec, alpha: &str, pool: &[DVec3], sub: &[usize]) -> State {
    let mut st = make_state(dim, periodic, b, alpha, pool, sub);
    st.id = format!("{}|{}|{}|{}", dim_tag(dim, periodic), b.name, alpha, removed_tag(pool.len(), sub));
    st
}

/// Deviation-bounded medium / large states (8..125 generators): r-tree inner nodes, early termination by the
/// safety radius, cells with many faces, long connectivity arrays, more items than worker threads.
///
/// * `L4c`: cell-centred 4^d lattice (64 / 16 generators; every vertex of every cell is an exact 8-fold tie),
///   with <= r generators removed;
/// * `L2c`: cell-centred 2^d lattice, every non-empty subset (3D: 255, 2D: 15);
/// * `K20` / `K16` / `K12`: Kronecker pool in general position with <= r removed;
/// * thorough only: the complete wall-to-wall lattice {0..4}/4 (125 generators, 98 of them on walls) with <= 1 removed.
pub fn medium_families(thorough: bool, dims: &[usize], periodic_opts: &[bool]) -> Vec<(String, Vec<State>)> {
    let mut out = vec![];
    let boxes = box_menu(false);
    for &dim in dims {
        for &periodic in periodic_opts {
            for b in &boxes {
                let mut add_c = |alpha: &str, pool: Vec<DVec3>, r: usize| {
                    let sts: Vec<State> = complement_subsets(pool.len(), r).iter().map(|s| make_state_complement(dim, periodic, b, alpha, &pool, s)).collect();
                    out.push((format!("{}|{}|{} pool={} removed<={}", dim_tag(dim, periodic), b.name, alpha, pool.len(), r), sts));
                };
                match dim {
                    3 => {
                        add_c("L4c", centred_lattice_points(4, b, 3), if thorough { 2 } else { 1 });
                        add_c("K20", kronecker_points(20, b, 3), if thorough { 2 } else { 1 });
                        if thorough && !periodic {
                            add_c("L3b", lattice_points(L3B, b, 3, false), 1);
                        }
                    }
                    2 => {
                        add_c("L4c", centred_lattice_points(4, b, 2), if thorough { 3 } else { 2 });
                        add_c("K16", kronecker_points(16, b, 2), if thorough { 2 } else { 1 });
                    }
                    _ => {
                        add_c("K12", kronecker_points(12, b, 1), if thorough { 3 } else { 2 });
                    }
                }
                if dim >= 2 {
                    let pool = centred_lattice_points(2, b, dim);
                    let sts: Vec<State> = subsets_upto(pool.len(), pool.len()).iter().map(|s| make_state(dim, periodic, b, "L2c", &pool, s)).collect();
                    out.push((format!("{}|{}|L2c pool={} all subsets", dim_tag(dim, periodic), b.name, pool.len()), sts));
                }
                // a corner of the box (an edge midpoint, a face centre) that is itself a Voronoi vertex: d generators off
                // the walls at equal distance from it (cyclic shifts of (a, b, b)), with and without a far generator -
                // cells that touch a wall in a single point or edge, faces degenerated to a point
                if dim >= 2 && !periodic {
                    let mut sts = vec![];
                    let targets: Vec<[f64; 3]> = vec![[0., 0., 0.], [1., 1., 1.], [0., 1., 0.], [1., 0., 1.], [0.5, 0., 0.], [0.5, 0.5, 0.], [1., 0.5, 1.]];
                    for (ti, tg) in targets.iter().enumerate() {
                        for (ai, (a, bb)) in [(0.5, 0.25), (0.25, 0.5), (0.375, 0.125)].iter().enumerate() {
                            let mut pts = vec![];
                            for k in 0..dim {
                                let mut f = [*bb; 3];
                                f[k] = *a;
                                // step away from the target point into the box
                                let mut p = [0.0f64; 3];
                                for ax in 0..3 {
                                    p[ax] = if tg[ax] >= 0.75 { tg[ax] - f[ax] } else { tg[ax] + f[ax] };
                                }
                                let mut q = b.anchor + v3(p[0], p[1], p[2]) * b.width;
                                if dim == 2 {
                                    q.z = GARBAGE[k % 3];
                                }
                                pts.push(q);
                            }
                            let valid = |v: &Vec<DVec3>| v.iter().all(|q| (0..dim).all(|ax| comp(*q, ax) > comp(b.anchor, ax) && comp(*q, ax) < comp(b.anchor, ax) + comp(b.width, ax)));
                            let distinct = |v: &Vec<DVec3>| (0..v.len()).all(|i| (0..i).all(|j| (0..dim).any(|ax| comp(v[i], ax) != comp(v[j], ax))));
                            if !valid(&pts) || !distinct(&pts) {
                                continue;
                            }
                            sts.push(State { id: format!("{}|{}|vertex-at-target{}|ab{}", dim_tag(dim, false), b.name, ti, ai), dim, periodic: false, anchor: b.anchor, width: b.width, gens: pts.clone() });
                            let mut far = b.anchor + v3(if tg[0] >= 0.75 { 0.0625 } else { 0.9375 }, if tg[1] >= 0.75 { 0.125 } else { 0.875 }, if tg[2] >= 0.75 { 0.0625 } else { 0.9375 }) * b.width;
                            if dim == 2 {
                                far.z = GARBAGE[0];
                            }
                            pts.push(far);
                            if distinct(&pts) {
                                sts.push(State { id: format!("{}|{}|vertex-at-target{}|ab{}+far", dim_tag(dim, false), b.name, ti, ai), dim, periodic: false, anchor: b.anchor, width: b.width, gens: pts });
                            }
                        }
                    }
                    out.push((format!("{}|{}|a corner / edge midpoint / face centre of the box is a Voronoi vertex ({} states)", dim_tag(dim, false), b.name, sts.len()), sts));
                }
            }
        }
    }
    out
}

static THOROUGH_MENU: std::sync::atomic::AtomicBool = std::sync::atomic::AtomicBool::new(false);

/// Select the thorough (larger) mask menu for states with more than `full_upto` generators.
pub fn set_thorough_menus(on: bool) {
    THOROUGH_MENU.store(on, std::sync::atomic::Ordering::Relaxed);
}

/// Is the thorough tier running? (mask menus, and the scope of the R9 selector in 2D)
pub fn thorough_tier() -> bool {
    THOROUGH_MENU.load(std::sync::atomic::Ordering::Relaxed)
}

/// Evenly spaced indices of 0..n (at most k of them, first and last included).
fn spaced(n: usize, k: usize) -> Vec<usize> {
    if n <= k {
        return (0..n).collect();
    }
    let mut v: Vec<usize> = (0..k).map(|j| j * (n - 1) / (k - 1)).collect();
    v.dedup();
    v
}

/// Mask menu: every mask for n <= full_upto; beyond that a deviation-bounded menu: none (= full build), all
/// false, all true, single active cells, single inactive cells, pairs of active / inactive cells, and six
/// structured patterns (even / odd / halves / every third). Thorough: every single (in)active cell, every pair of
/// active cells for n <= 20, every pair of inactive cells for n <= 12. Quick: 8 evenly spaced single active
/// cells, 4 (n > 24) or 8 single inactive cells, all pairs only for n <= 6.
pub fn masks_menu(n: usize, full_upto: usize) -> Vec<Option<Vec<bool>>> {
    let thorough = THOROUGH_MENU.load(std::sync::atomic::Ordering::Relaxed);
    let mut m: Vec<Option<Vec<bool>>> = vec![None];
    if n <= full_upto {
        m.extend(all_masks(n).into_iter().map(Some));
        return m;
    }
    m.push(Some(vec![false; n]));
    m.push(Some(vec![true; n]));
    let (act, inact) = if thorough { ((0..n).collect::<Vec<_>>(), (0..n).collect::<Vec<_>>()) } else { (spaced(n, 8), spaced(n, if n > 24 { 4 } else { 8 })) };
    for &i in &act {
        let mut a = vec![false; n];
        a[i] = true;
        m.push(Some(a));
    }
    for &i in &inact {
        let mut b = vec![true; n];
        b[i] = false;
        m.push(Some(b));
    }
    let (pa, pi) = if thorough { (20, 12) } else { (6, 6) };
    for i in 0..n {
        for j in i + 1..n {
            if n <= pa {
                let mut a = vec![false; n];
                a[i] = true;
                a[j] = true;
                m.push(Some(a));
            }
            if n <= pi {
                let mut b = vec![true; n];
                b[i] = false;
                b[j] = false;
                m.push(Some(b));
            }
        }
    }
    // structured patterns: even / odd / halves / thirds, and three sparse ones (about one cell in nine; the first and the
    // last cell only; a contiguous block of an eighth) - a small share of constructed cells, but more than one
    let pats: [fn(usize, usize) -> bool; 9] = [
        |i, _| i % 2 == 0,
        |i, _| i % 2 == 1,
        |i, n| i < n / 2,
        |i, n| i >= n / 2,
        |i, _| i % 3 == 0,
        |i, _| i % 3 != 0,
        |i, _| i % 9 == 4,
        |i, n| i == 0 || i + 1 == n,
        |i, n| i >= n / 2 && i < n / 2 + (n / 8).max(2),
    ];
    for p in pats {
        let mk: Vec<bool> = (0..n).map(|i| p(i, n)).collect();
        if !m.iter().any(|x| x.as_ref() == Some(&mk)) {
            m.push(Some(mk));
        }
    }
    m
}

/// Minimal mask menu for checks whose per-cell verdict does not depend on the other cells' selection: every
/// mask for n <= full_upto, beyond that none, all true, even / odd, first and last cell alone (thorough: `masks_menu`).
pub fn masks_menu_min(n: usize, full_upto: usize) -> Vec<Option<Vec<bool>>> {
    if n <= full_upto || THOROUGH_MENU.load(std::sync::atomic::Ordering::Relaxed) {
        return masks_menu(n, full_upto);
    }
    let mut m: Vec<Option<Vec<bool>>> = vec![None, Some(vec![true; n])];
    m.push(Some((0..n).map(|i| i % 2 == 0).collect()));
    m.push(Some((0..n).map(|i| i % 2 == 1).collect()));
    m.push(Some((0..n).map(|i| i == 0).collect()));
    m.push(Some((0..n).map(|i| i == n - 1).collect()));
    m
}

// ---------------------------------------------------------------------------------------------
// Big-cell states: one cell with many planes / many vertices / large faces / large removed sets

struct Lcg(u64);
impl Lcg {
    fn next(&mut self) -> f64 {
        self.0 = self.0.wrapping_mul(6364136223846793005).wrapping_add(1442695040888963407);
        (self.0 >> 11) as f64 / (1u64 << 53) as f64
    }
}

/// Irregular ring of m points (fractions of the box) near the plane z = 1/2 about the axis x = y = 1/2: angle, radius
/// and height are all jittered, so that the ring is neither co-circular nor coplanar (a point and a circle always lie
/// on a common sphere: an exact ring around an axis generator is a co-spherical set, i.e. the R5 class of C05, family
/// B4 there).
pub fn ring_fracs(m: usize, radius: f64) -> Vec<DVec3> {
    (0..m)
        .map(|i| {
            let t = i as f64;
            let a = 2. * std::f64::consts::PI * (t + 0.3) / m as f64 + 0.01 * (3. * t).sin();
            // the jitter shrinks with 1/m^2 so that every ring generator keeps its face (a side of the m-gon disappears when
            // its plane is pushed out by more than about rho (2 pi / m)^2 / 2); for m = 300 it is 6e-5 of the radius, still
            // eleven orders above rounding
            let amp = (17. / m as f64).powi(2).min(1.);
            let r = radius * (1. + 0.02 * amp * (5. * t + 1.).sin());
            v3(0.5 + r * a.cos(), 0.5 + r * a.sin(), 0.5 + 0.004 * amp * (7. * t + 2.).sin())
        })
        .collect()
}

/// The exact (co-circular, coplanar) ring: only the angles are irregular.
pub fn exact_ring_fracs(m: usize, radius: f64) -> Vec<DVec3> {
    (0..m)
        .map(|i| {
            let a = 2. * std::f64::consts::PI * (i as f64 + 0.3) / m as f64 + 0.01 * (3. * i as f64).sin();
            v3(0.5 + radius * a.cos(), 0.5 + radius * a.sin(), 0.5)
        })
        .collect()
}

/// `axis`: two generators on the axis of a ring of m generators: their shared face has m vertices.
/// `prism`: a central generator, a ring of m neighbours (its cell is an m-sided prism) and one neighbour straight
///  above whose bisector removes all m top vertices in a single clip.
/// `shell`: a central generator inside a jittered Fibonacci shell of m neighbours: about m planes and 2m-4 vertices.
pub fn bigcell_state(kind: &str, m: usize, b: &BoxSpec) -> State {
    let mut fr: Vec<DVec3> = vec![];
    match kind {
        "axis" => {
            fr.push(v3(0.5, 0.5, 0.3));
            fr.push(v3(0.5, 0.5, 0.7));
            fr.extend(ring_fracs(m, 0.3));
        }
        "prism" => {
            fr.push(v3(0.5, 0.5, 0.5));
            fr.extend(ring_fracs(m, 0.3));
            fr.push(v3(0.5, 0.5, 0.9));
        }
        _ => {
            let mut rng = Lcg(0x5eed_0000 + m as u64);
            fr.push(v3(0.5, 0.5, 0.5));
            for k in 0..m {
                let z = 1. - 2. * (k as f64 + 0.5) / m as f64;
                let phi = k as f64 * 2.399963229728653 + 0.05 * rng.next();
                let r = (1. - z * z).sqrt();
                let dir = v3(r * phi.cos(), r * phi.sin(), z);
                fr.push(v3(0.5, 0.5, 0.5) + (0.3 + 0.002 * rng.next()) * dir);
            }
        }
    }
    State {
        id: format!("3R|{}|{}{}", b.name, kind, m),
        dim: 3,
        periodic: false,
        anchor: b.anchor,
        width: b.width,
        gens: fr.iter().map(|f| b.anchor + *f * b.width).collect(),
    }
}

pub fn bigcell_family(thorough: bool) -> Vec<State> {
    let mut out = vec![];
    let boxes = box_menu(false);
    // 300: more than 256 planes / faces / clips in one cell and a face with more than 256 vertices (beyond any 8-bit counter)
    let rings: &[usize] = if thorough { &[5, 12, 16, 17, 24, 32, 33, 40, 64, 65, 72, 100, 255, 256, 257, 300] } else { &[5, 17, 33, 40, 300] };
    let shells: &[usize] = if thorough { &[20, 40, 63, 66, 70, 100, 130, 160, 250, 260, 280, 300, 330, 360, 400, 450, 500, 600, 700] } else { &[30, 70, 300, 350, 400, 500] };
    for (bi, b) in boxes.iter().enumerate() {
        // the cubic box and the offset box (b1 is too flat for a ring of radius 0.3 to produce the intended shapes)
        if bi == 1 {
            continue;
        }
        for &m in rings {
            // the largest sizes only in the cubic box
            if m > 100 && bi != 0 {
                continue;
            }
            out.push(bigcell_state("axis", m, b));
            out.push(bigcell_state("prism", m, b));
        }
        for &m in shells {
            if m > 160 && bi != 0 {
                continue;
            }
            out.push(bigcell_state("shell", m, b));
        }
    }
    out
}

// ---------------------------------------------------------------------------------------------
// Large states: the generator counts of ordinary use (beyond every "small input" threshold a shortcut could have)

/// * `K2000`: 2000 Kronecker points filling the box;
/// * `cluster`: a compact cluster of 1200 (thorough also 2500) Kronecker points in a sub-cube of 1/10 of the box plus six
///   isolated generators far away (strong density contrast: the rim cells of the cluster have real neighbours after more
///   than a thousand closer candidates that do not clip anything);
/// reflective and periodic, 3D; thorough also 2D.
pub fn large_states(thorough: bool) -> Vec<State> {
    let b = box_menu(false)[0];
    let mut out = vec![];
    let dims: &[usize] = if thorough { &[3, 2] } else { &[3] };
    for &dim in dims {
        for periodic in [false, true] {
            let uni = kronecker_points(2000, &b, dim);
            out.push(State { id: format!("{}|b0|K2000", dim_tag(dim, periodic)), dim, periodic, anchor: b.anchor, width: b.width, gens: uni });
            for nc in if thorough { vec![1200usize, 2500] } else { vec![1200usize] } {
                let mut gens: Vec<DVec3> = kronecker_points(nc, &b, dim)
                    .into_iter()
                    .map(|p| {
                        let mut q = b.anchor + v3(0.45, 0.45, 0.45) * b.width + (p - b.anchor) * 0.1;
                        if dim <= 2 {
                            q.z = p.z;
                        }
                        q
                    })
                    .collect();
                for f in [v3(0.05, 0.07, 0.11), v3(0.93, 0.08, 0.9), v3(0.1, 0.95, 0.12), v3(0.9, 0.9, 0.07), v3(0.06, 0.5, 0.94), v3(0.95, 0.45, 0.5)] {
                    let mut q = b.anchor + f * b.width;
                    if dim <= 2 {
                        q.z = GARBAGE[0];
                    }
                    gens.push(q);
                }
                out.push(State { id: format!("{}|b0|cluster{}+6", dim_tag(dim, periodic), nc), dim, periodic, anchor: b.anchor, width: b.width, gens });
            }
        }
    }
    out
}
