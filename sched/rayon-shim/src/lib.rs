//! A controlled executor with rayon's surface.
//!
//! Scheduling model (the rayon contract, not rayon-core's internals): a parallel iterator over n items
//! is executed as a partition of 0..n into contiguous chunks; each chunk runs sequentially, in index
//! order, on one worker thread (per-chunk state for `fold` / `map_init`); chunks run in any order on any
//! of W persistent worker threads; `collect` is order preserving, `for_each` / `par_bridge` see
//! completion order, `reduce` / `sum` combine per-chunk results in index order.
//!
//! Every decision (cut after item i?, which chunk next?, which worker?, what does
//! `current_num_threads` answer?) is a *choice point* answered by the controller, which replays a
//! prefix of choices and then takes choice 0 (no cut, lowest chunk, worker 0). The harness enumerates
//! prefixes depth first.

use std::cell::Cell;
use std::sync::{Arc, Mutex};

pub mod prelude {
    pub use crate::{
        FromParallelIterator, IndexedParallelIterator, IntoParallelIterator, IntoParallelRefIterator, IntoParallelRefMutIterator, ParallelBridge, ParallelIterator,
        ParallelExtend, ParallelSlice, ParallelSliceMut,
    };
}

// ---------------------------------------------------------------------------------------------
// Controller

#[derive(Clone, Debug)]
pub struct ChoicePoint {
    pub region: usize,
    pub kind: &'static str,
    pub arity: usize,
    pub chosen: usize,
}

pub struct Controller {
    pub prefix: Vec<usize>,
    pub log: Vec<ChoicePoint>,
    pub regions: usize,
    pub workers: usize,
    /// Regions in which non-default choices may be taken (None = all)
    pub focus: Option<usize>,
    pub region_sizes: Vec<usize>,
    pub divergence: Option<String>,
}

static CONTROLLER: Mutex<Option<Controller>> = Mutex::new(None);

thread_local! {
    static ON_WORKER: Cell<bool> = const { Cell::new(false) };
}

fn choose(region: usize, kind: &'static str, arity: usize) -> usize {
    if arity <= 1 {
        return 0;
    }
    let mut g = CONTROLLER.lock().unwrap();
    match g.as_mut() {
        None => 0,
        Some(c) => {
            let pos = c.log.len();
            let mut chosen = if pos < c.prefix.len() { c.prefix[pos] } else { 0 };
            if chosen >= arity {
                c.divergence = Some(format!("choice point {} ({} of region {}): prefix asks for alternative {} of {}", pos, kind, region, chosen, arity));
                chosen = 0;
            }
            c.log.push(ChoicePoint { region, kind, arity, chosen });
            chosen
        }
    }
}

fn next_region(n: usize) -> usize {
    let mut g = CONTROLLER.lock().unwrap();
    match g.as_mut() {
        None => 0,
        Some(c) => {
            c.regions += 1;
            c.region_sizes.push(n);
            c.regions - 1
        }
    }
}

fn workers() -> usize {
    CONTROLLER.lock().unwrap().as_ref().map_or(1, |c| c.workers)
}

// ---------------------------------------------------------------------------------------------
// Worker pool: persistent threads for one controlled execution, driven one job at a time.
//
// Nested parallel regions (a chunk that itself enters a parallel region) are planned like any other region. A
// thread that waits for a job it handed to another worker keeps serving its own queue meanwhile (like a rayon
// worker that steals while it waits on a latch), so a nested chunk may run on any worker, including one that is
// blocked further up the call chain; a chunk planned for the calling worker itself runs inline.

type Job = Box<dyn FnOnce() + Send + 'static>;

struct Shared {
    queues: Vec<std::collections::VecDeque<(u64, Job)>>,
    done: std::collections::HashMap<u64, bool>,
    next_id: u64,
    shutdown: bool,
}

static SHARED: Mutex<Option<Shared>> = Mutex::new(None);
static CV: std::sync::Condvar = std::sync::Condvar::new();
static HANDLES: Mutex<Vec<std::thread::JoinHandle<()>>> = Mutex::new(Vec::new());

thread_local! {
    static WORKER_ID: Cell<Option<usize>> = const { Cell::new(None) };
}

fn finish_job(id: u64, job: Job) {
    let ok = std::panic::catch_unwind(std::panic::AssertUnwindSafe(job)).is_ok();
    let mut g = SHARED.lock().unwrap();
    if let Some(s) = g.as_mut() {
        s.done.insert(id, ok);
    }
    CV.notify_all();
}

fn start_pool(w: usize) {
    *SHARED.lock().unwrap() = Some(Shared { queues: (0..w).map(|_| Default::default()).collect(), done: Default::default(), next_id: 0, shutdown: false });
    let mut handles = vec![];
    for k in 0..w {
        handles.push(
            std::thread::Builder::new()
                .name(format!("shim-worker-{}", k))
                .stack_size(16 << 20)
                .spawn(move || {
                    ON_WORKER.with(|f| f.set(true));
                    WORKER_ID.with(|f| f.set(Some(k)));
                    loop {
                        let job = {
                            let mut g = SHARED.lock().unwrap();
                            loop {
                                let Some(s) = g.as_mut() else { break None };
                                if let Some(j) = s.queues[k].pop_front() {
                                    break Some(j);
                                }
                                if s.shutdown {
                                    break None;
                                }
                                g = CV.wait(g).unwrap();
                            }
                        };
                        match job {
                            None => return,
                            Some((id, job)) => finish_job(id, job),
                        }
                    }
                })
                .expect("spawn worker"),
        );
    }
    *HANDLES.lock().unwrap() = handles;
}

fn stop_pool() {
    if let Some(s) = SHARED.lock().unwrap().as_mut() {
        s.shutdown = true;
    }
    CV.notify_all();
    let hs: Vec<_> = std::mem::take(&mut *HANDLES.lock().unwrap());
    for h in hs {
        let _ = h.join();
    }
    *SHARED.lock().unwrap() = None;
}

/// Run `job` on worker `w` and wait for it (the lifetime of the closure is erased: we block until it is done).
fn run_on_worker<'a>(w: usize, job: Box<dyn FnOnce() + Send + 'a>) {
    let me = WORKER_ID.with(|f| f.get());
    if me == Some(w) {
        // planned for the calling worker: same thread, inline
        return job();
    }
    // SAFETY: we wait for completion below, so borrowed data outlives the job.
    let job: Job = unsafe { std::mem::transmute::<Box<dyn FnOnce() + Send + 'a>, Job>(job) };
    let id = {
        let mut g = SHARED.lock().unwrap();
        match g.as_mut() {
            Some(s) if w < s.queues.len() => {
                let id = s.next_id;
                s.next_id += 1;
                s.queues[w].push_back((id, job));
                id
            }
            _ => {
                drop(g);
                return job();
            }
        }
    };
    CV.notify_all();
    loop {
        let mut g = SHARED.lock().unwrap();
        let mine = loop {
            let s = g.as_mut().expect("pool alive while a job is pending");
            if let Some(ok) = s.done.remove(&id) {
                if !ok {
                    drop(g);
                    panic!("a task panicked on a shim worker thread");
                }
                return;
            }
            if let Some(k) = me {
                if let Some(j) = s.queues[k].pop_front() {
                    break j;
                }
            }
            g = CV.wait(g).unwrap();
        };
        drop(g);
        finish_job(mine.0, mine.1);
    }
}

/// Run `body` under a controller that replays `prefix`; returns the body's result and the choice log.
pub fn controlled<R>(prefix: &[usize], workers: usize, body: impl FnOnce() -> R) -> (R, Vec<ChoicePoint>, Vec<usize>, Option<String>) {
    {
        let mut g = CONTROLLER.lock().unwrap();
        assert!(g.is_none(), "nested controlled executions");
        *g = Some(Controller { prefix: prefix.to_vec(), log: vec![], regions: 0, workers, focus: None, region_sizes: vec![], divergence: None });
    }
    start_pool(workers);
    let r = std::panic::catch_unwind(std::panic::AssertUnwindSafe(body));
    stop_pool();
    let c = CONTROLLER.lock().unwrap().take().unwrap();
    match r {
        Ok(v) => (v, c.log, c.region_sizes, c.divergence),
        Err(p) => std::panic::resume_unwind(p),
    }
}

/// One parallel region: decide partition, chunk order, workers; run; return per-task outputs.
/// Result: (task index, outputs) in completion order, plus the chunk each task belonged to.
fn execute<'a, T: Send + 'a>(tasks: Vec<Box<dyn FnOnce() -> Vec<T> + Send + 'a>>, ordered: bool) -> Vec<(usize, Vec<T>)> {
    let n = tasks.len();
    if n == 0 {
        return vec![];
    }
    let chunks = plan_region(n, ordered);
    run_chunks(tasks, &chunks, |_c| (), |_, t| t())
}

/// The plan of a region: chunks (contiguous index ranges) in execution order with their worker.
pub struct Chunk {
    pub lo: usize,
    pub hi: usize,
    pub worker: usize,
    pub index: usize,
}

/// Regions larger than this use the coarse partition alphabet (see `plan_region`).
pub const COARSE_FROM: usize = 256;

fn plan_region(n: usize, ordered: bool) -> Vec<Chunk> {
    let region = next_region(n);
    // partition: cut after item i? A bridged (`par_bridge`) iterator has no contiguous chunks: workers pull the
    // items one at a time, so every item is a task of its own and only the order / worker choices remain.
    // Regions with more than COARSE_FROM items use a coarse partition alphabet: cuts are offered only at a menu of
    // positions (after the first and second item, at the quarters, before the last two items), and a bridged iterator
    // is pulled in blocks delimited by the same menu. Every schedule of the coarse alphabet is a schedule of the fine
    // one (a sub-space, reported as such by the harness); it keeps one-deviation exploration of regions with
    // thousands of items affordable.
    let coarse: Option<Vec<usize>> = if n > COARSE_FROM {
        let mut m = vec![1, 2, n / 4, n / 2, n - n / 4, n - 2, n - 1];
        m.sort_unstable();
        m.dedup();
        Some(m)
    } else {
        None
    };
    let mut bounds = vec![0usize];
    match &coarse {
        None => {
            for i in 0..n.saturating_sub(1) {
                if !ordered || choose(region, "cut", 2) == 1 {
                    bounds.push(i + 1);
                }
            }
        }
        Some(menu) => {
            for &pos in menu {
                if !ordered || choose(region, "cut", 2) == 1 {
                    bounds.push(pos);
                }
            }
        }
    }
    bounds.push(n);
    let c = bounds.len() - 1;
    let mut remaining: Vec<usize> = (0..c).collect();
    let w = workers();
    let mut plan = vec![];
    while !remaining.is_empty() {
        let k = choose(region, "next-chunk", remaining.len());
        let ci = remaining.remove(k);
        let worker = choose(region, "worker", w);
        plan.push(Chunk { lo: bounds[ci], hi: bounds[ci + 1], worker, index: ci });
    }
    plan
}

/// Run the chunks in plan order; `init` creates the per-chunk state on the worker, `f` runs one task.
fn run_chunks<'a, T: Send + 'a, S, O: Send + 'a>(
    tasks: Vec<Box<dyn FnOnce() -> Vec<T> + Send + 'a>>,
    plan: &[Chunk],
    init: impl Fn(&Chunk) -> S + Sync,
    f: impl Fn(&mut S, Box<dyn FnOnce() -> Vec<T> + Send + 'a>) -> O + Sync,
) -> Vec<(usize, O)> {
    let mut slots: Vec<Option<Box<dyn FnOnce() -> Vec<T> + Send + 'a>>> = tasks.into_iter().map(Some).collect();
    let out: Mutex<Vec<(usize, O)>> = Mutex::new(vec![]);
    for ch in plan {
        let mine: Vec<(usize, Box<dyn FnOnce() -> Vec<T> + Send + 'a>)> = (ch.lo..ch.hi).map(|i| (i, slots[i].take().unwrap())).collect();
        let out_ref = &out;
        let init_ref = &init;
        let f_ref = &f;
        run_on_worker(
            ch.worker,
            Box::new(move || {
                let mut state = init_ref(ch);
                for (i, t) in mine {
                    let o = f_ref(&mut state, t);
                    out_ref.lock().unwrap().push((i, o));
                }
            }),
        );
    }
    out.into_inner().unwrap()
}

// ---------------------------------------------------------------------------------------------
// The parallel iterator

pub struct ParIter<'a, T: Send> {
    tasks: Vec<Box<dyn FnOnce() -> Vec<T> + Send + 'a>>,
    /// false after par_bridge: collect sees completion order
    ordered: bool,
}

/// The trait face of the iterator: what code sees that passes iterators around as `impl ParallelIterator<Item = ..>`
/// (helper functions returning an opaque parallel iterator). Every provided method forwards to the inherent method of
/// `ParIter` with the same name, so an opaque iterator is scheduled by the same model.
pub trait ParallelIterator: Sized + Send {
    type Item: Send;
    #[doc(hidden)]
    fn into_tasks<'a>(self) -> ParIter<'a, Self::Item>
    where
        Self: 'a;

    fn map<'a, U: Send + 'a, F: Fn(Self::Item) -> U + Sync + Send + 'a>(self, f: F) -> ParIter<'a, U>
    where
        Self: 'a,
    {
        self.into_tasks().map(f)
    }
    fn filter<'a, F: Fn(&Self::Item) -> bool + Sync + Send + 'a>(self, f: F) -> ParIter<'a, Self::Item>
    where
        Self: 'a,
    {
        self.into_tasks().filter(f)
    }
    fn filter_map<'a, U: Send + 'a, F: Fn(Self::Item) -> Option<U> + Sync + Send + 'a>(self, f: F) -> ParIter<'a, U>
    where
        Self: 'a,
    {
        self.into_tasks().filter_map(f)
    }
    fn flat_map<'a, I: IntoIterator + 'a, F: Fn(Self::Item) -> I + Sync + Send + 'a>(self, f: F) -> ParIter<'a, I::Item>
    where
        Self: 'a,
        I::Item: Send + 'a,
    {
        self.into_tasks().flat_map(f)
    }
    fn flat_map_iter<'a, I: IntoIterator + 'a, F: Fn(Self::Item) -> I + Sync + Send + 'a>(self, f: F) -> ParIter<'a, I::Item>
    where
        Self: 'a,
        I::Item: Send + 'a,
    {
        self.into_tasks().flat_map(f)
    }
    fn enumerate<'a>(self) -> ParIter<'a, (usize, Self::Item)>
    where
        Self: 'a,
    {
        self.into_tasks().enumerate()
    }
    fn inspect<'a, F: Fn(&Self::Item) + Sync + Send + 'a>(self, f: F) -> ParIter<'a, Self::Item>
    where
        Self: 'a,
    {
        self.into_tasks().inspect(f)
    }
    fn map_init<'a, S, U: Send + 'a, I: Fn() -> S + Sync + Send + 'a, F: Fn(&mut S, Self::Item) -> U + Sync + Send + 'a>(self, init: I, f: F) -> ParIter<'a, U>
    where
        Self: 'a,
    {
        self.into_tasks().map_init(init, f)
    }
    fn fold<'a, A: Send + 'a, ID: Fn() -> A + Sync + Send + 'a, F: Fn(A, Self::Item) -> A + Sync + Send + 'a>(self, identity: ID, op: F) -> ParIter<'a, A>
    where
        Self: 'a,
    {
        self.into_tasks().fold(identity, op)
    }
    fn reduce<'a, ID: Fn() -> Self::Item + Sync + Send + 'a, F: Fn(Self::Item, Self::Item) -> Self::Item + Sync + Send + 'a>(self, identity: ID, op: F) -> Self::Item
    where
        Self: 'a,
    {
        self.into_tasks().reduce(identity, op)
    }
    fn for_each<'a, F: Fn(Self::Item) + Sync + Send + 'a>(self, f: F)
    where
        Self: 'a,
    {
        self.into_tasks().for_each(f)
    }
    fn collect<'a, C: FromParallelIterator<Self::Item>>(self) -> C
    where
        Self: 'a,
    {
        self.into_tasks().collect()
    }
    fn count<'a>(self) -> usize
    where
        Self: 'a,
    {
        self.into_tasks().count()
    }
    fn sum<'a, S: std::iter::Sum<Self::Item> + std::iter::Sum<S> + Send + 'a>(self) -> S
    where
        Self: 'a,
    {
        self.into_tasks().sum()
    }
    fn with_min_len(self, _n: usize) -> Self {
        self
    }
    fn with_max_len(self, _n: usize) -> Self {
        self
    }
}

impl<'b, T: Send + 'b> ParallelIterator for ParIter<'b, T> {
    type Item = T;
    fn into_tasks<'a>(self) -> ParIter<'a, T>
    where
        Self: 'a,
    {
        self
    }
}

pub trait IndexedParallelIterator: ParallelIterator {}
impl<'b, T: Send + 'b> IndexedParallelIterator for ParIter<'b, T> {}
/// `par_chunks`, `par_chunks_exact`, `par_windows` of shared slices.
pub trait ParallelSlice<T: Sync> {
    fn as_parallel_slice(&self) -> &[T];
    fn par_chunks<'a>(&'a self, size: usize) -> ParIter<'a, &'a [T]>
    where
        T: 'a,
    {
        ParIter::from_items(self.as_parallel_slice().chunks(size))
    }
    fn par_chunks_exact<'a>(&'a self, size: usize) -> ParIter<'a, &'a [T]>
    where
        T: 'a,
    {
        ParIter::from_items(self.as_parallel_slice().chunks_exact(size))
    }
    fn par_windows<'a>(&'a self, size: usize) -> ParIter<'a, &'a [T]>
    where
        T: 'a,
    {
        ParIter::from_items(self.as_parallel_slice().windows(size))
    }
}

impl<T: Sync> ParallelSlice<T> for [T] {
    fn as_parallel_slice(&self) -> &[T] {
        self
    }
}

/// After a stable sort: an *unstable* parallel sort may leave elements that compare equal in any order. The model
/// offers one alternative outcome (every run of equal elements reversed) as a choice point, so that code relying on
/// the order of ties is one deviation away from the default schedule.
fn unstable_ties<T>(v: &mut [T], same: impl Fn(&T, &T) -> bool) {
    let n = v.len();
    let mut has_ties = false;
    for i in 1..n {
        if same(&v[i - 1], &v[i]) {
            has_ties = true;
            break;
        }
    }
    if !has_ties {
        return;
    }
    let region = next_region(n);
    if choose(region, "unstable-sort-ties", 2) == 1 {
        let mut lo = 0;
        while lo < n {
            let mut hi = lo + 1;
            while hi < n && same(&v[hi - 1], &v[hi]) {
                hi += 1;
            }
            v[lo..hi].reverse();
            lo = hi;
        }
    }
}

/// Parallel sorts (stable ones are deterministic; unstable ones see `unstable_ties`) and mutable chunks.
pub trait ParallelSliceMut<T: Send> {
    fn as_parallel_slice_mut(&mut self) -> &mut [T];
    fn par_sort(&mut self)
    where
        T: Ord,
    {
        self.as_parallel_slice_mut().sort()
    }
    fn par_sort_by<F: Fn(&T, &T) -> std::cmp::Ordering + Sync>(&mut self, f: F) {
        self.as_parallel_slice_mut().sort_by(|a, b| f(a, b))
    }
    fn par_sort_by_key<K: Ord, F: Fn(&T) -> K + Sync>(&mut self, f: F) {
        self.as_parallel_slice_mut().sort_by_key(|a| f(a))
    }
    fn par_sort_by_cached_key<K: Ord + Send, F: Fn(&T) -> K + Sync>(&mut self, f: F) {
        self.as_parallel_slice_mut().sort_by_cached_key(|a| f(a))
    }
    fn par_sort_unstable(&mut self)
    where
        T: Ord,
    {
        let v = self.as_parallel_slice_mut();
        v.sort();
        unstable_ties(v, |a, b| a.cmp(b) == std::cmp::Ordering::Equal);
    }
    fn par_sort_unstable_by<F: Fn(&T, &T) -> std::cmp::Ordering + Sync>(&mut self, f: F) {
        let v = self.as_parallel_slice_mut();
        v.sort_by(|a, b| f(a, b));
        unstable_ties(v, |a, b| f(a, b) == std::cmp::Ordering::Equal);
    }
    fn par_sort_unstable_by_key<K: Ord, F: Fn(&T) -> K + Sync>(&mut self, f: F) {
        let v = self.as_parallel_slice_mut();
        v.sort_by_key(|a| f(a));
        unstable_ties(v, |a, b| f(a) == f(b));
    }
    fn par_chunks_mut<'a>(&'a mut self, size: usize) -> ParIter<'a, &'a mut [T]>
    where
        T: 'a,
    {
        ParIter::from_items(self.as_parallel_slice_mut().chunks_mut(size))
    }
    fn par_chunks_exact_mut<'a>(&'a mut self, size: usize) -> ParIter<'a, &'a mut [T]>
    where
        T: 'a,
    {
        ParIter::from_items(self.as_parallel_slice_mut().chunks_exact_mut(size))
    }
}

impl<T: Send> ParallelSliceMut<T> for [T] {
    fn as_parallel_slice_mut(&mut self) -> &mut [T] {
        self
    }
}

/// `par_extend`
pub trait ParallelExtend<T: Send> {
    fn par_extend<'a, I: IntoParallelIterator<'a, Item = T>>(&mut self, it: I)
    where
        T: 'a;
}

impl<T: Send> ParallelExtend<T> for Vec<T> {
    fn par_extend<'a, I: IntoParallelIterator<'a, Item = T>>(&mut self, it: I)
    where
        T: 'a,
    {
        self.extend(it.into_par_iter().run_ordered());
    }
}

impl<'a, T: Send + 'a> ParIter<'a, T> {
    fn from_items(items: impl Iterator<Item = T>) -> Self
    where
        T: 'a,
    {
        ParIter { tasks: items.map(|x| Box::new(move || vec![x]) as Box<dyn FnOnce() -> Vec<T> + Send + 'a>).collect(), ordered: true }
    }

    pub fn map<U: Send + 'a, F: Fn(T) -> U + Sync + Send + 'a>(self, f: F) -> ParIter<'a, U> {
        let f = Arc::new(f);
        ParIter {
            tasks: self
                .tasks
                .into_iter()
                .map(|t| {
                    let f = f.clone();
                    Box::new(move || t().into_iter().map(|x| f(x)).collect()) as Box<dyn FnOnce() -> Vec<U> + Send + 'a>
                })
                .collect(),
            ordered: self.ordered,
        }
    }

    pub fn filter<F: Fn(&T) -> bool + Sync + Send + 'a>(self, f: F) -> ParIter<'a, T> {
        let f = Arc::new(f);
        ParIter {
            tasks: self
                .tasks
                .into_iter()
                .map(|t| {
                    let f = f.clone();
                    Box::new(move || t().into_iter().filter(|x| f(x)).collect()) as Box<dyn FnOnce() -> Vec<T> + Send + 'a>
                })
                .collect(),
            ordered: self.ordered,
        }
    }

    pub fn filter_map<U: Send + 'a, F: Fn(T) -> Option<U> + Sync + Send + 'a>(self, f: F) -> ParIter<'a, U> {
        let f = Arc::new(f);
        ParIter {
            tasks: self
                .tasks
                .into_iter()
                .map(|t| {
                    let f = f.clone();
                    Box::new(move || t().into_iter().filter_map(|x| f(x)).collect()) as Box<dyn FnOnce() -> Vec<U> + Send + 'a>
                })
                .collect(),
            ordered: self.ordered,
        }
    }

    pub fn flat_map<I: IntoIterator + 'a, F: Fn(T) -> I + Sync + Send + 'a>(self, f: F) -> ParIter<'a, I::Item>
    where
        I::Item: Send + 'a,
    {
        let f = Arc::new(f);
        ParIter {
            tasks: self
                .tasks
                .into_iter()
                .map(|t| {
                    let f = f.clone();
                    Box::new(move || t().into_iter().flat_map(|x| f(x)).collect()) as Box<dyn FnOnce() -> Vec<I::Item> + Send + 'a>
                })
                .collect(),
            ordered: self.ordered,
        }
    }

    pub fn flat_map_iter<I: IntoIterator + 'a, F: Fn(T) -> I + Sync + Send + 'a>(self, f: F) -> ParIter<'a, I::Item>
    where
        I::Item: Send + 'a,
    {
        self.flat_map(f)
    }

    pub fn flatten(self) -> ParIter<'a, <T as IntoIterator>::Item>
    where
        T: IntoIterator,
        <T as IntoIterator>::Item: Send + 'a,
    {
        ParIter {
            tasks: self
                .tasks
                .into_iter()
                .map(|t| Box::new(move || t().into_iter().flatten().collect()) as Box<dyn FnOnce() -> Vec<<T as IntoIterator>::Item> + Send + 'a>)
                .collect(),
            ordered: self.ordered,
        }
    }

    pub fn flatten_iter(self) -> ParIter<'a, <T as IntoIterator>::Item>
    where
        T: IntoIterator,
        <T as IntoIterator>::Item: Send + 'a,
    {
        self.flatten()
    }

    pub fn enumerate(self) -> ParIter<'a, (usize, T)> {
        ParIter {
            tasks: self
                .tasks
                .into_iter()
                .enumerate()
                .map(|(i, t)| Box::new(move || t().into_iter().map(|x| (i, x)).collect()) as Box<dyn FnOnce() -> Vec<(usize, T)> + Send + 'a>)
                .collect(),
            ordered: self.ordered,
        }
    }

    pub fn zip<U: Send + 'a, Z: IntoParallelIterator<'a, Item = U>>(self, other: Z) -> ParIter<'a, (T, U)> {
        let other = other.into_par_iter();
        ParIter {
            tasks: self
                .tasks
                .into_iter()
                .zip(other.tasks)
                .map(|(a, b)| Box::new(move || a().into_iter().zip(b()).collect()) as Box<dyn FnOnce() -> Vec<(T, U)> + Send + 'a>)
                .collect(),
            ordered: self.ordered,
        }
    }

    pub fn cloned<'b, U: Clone + Send + Sync + 'a>(self) -> ParIter<'a, U>
    where
        T: std::ops::Deref<Target = U>,
    {
        self.map(|x| (*x).clone())
    }

    pub fn copied<U: Copy + Send + Sync + 'a>(self) -> ParIter<'a, U>
    where
        T: std::ops::Deref<Target = U>,
    {
        self.map(|x| *x)
    }

    pub fn with_min_len(self, _n: usize) -> Self {
        self
    }

    pub fn with_max_len(self, _n: usize) -> Self {
        self
    }

    /// Per-chunk state (rayon: one `init()` per split).
    pub fn map_init<S, U: Send + 'a, I: Fn() -> S + Sync + Send + 'a, F: Fn(&mut S, T) -> U + Sync + Send + 'a>(self, init: I, f: F) -> ParIter<'a, U> {
        let n = self.tasks.len();
        if n == 0 {
            return ParIter { tasks: vec![], ordered: self.ordered };
        }
        let plan = plan_region(n, self.ordered);
        let mut res = run_chunks(self.tasks, &plan, |_| init(), |s, t| t().into_iter().map(|x| f(s, x)).collect::<Vec<U>>());
        let ordered = self.ordered;
        if ordered {
            res.sort_by_key(|r| r.0);
        }
        ParIter { tasks: res.into_iter().map(|(_, v)| Box::new(move || v) as Box<dyn FnOnce() -> Vec<U> + Send + 'a>).collect(), ordered }
    }

    /// Per-chunk fold: one output per chunk.
    pub fn fold<A: Send + 'a, ID: Fn() -> A + Sync + Send + 'a, F: Fn(A, T) -> A + Sync + Send + 'a>(self, identity: ID, op: F) -> ParIter<'a, A> {
        let n = self.tasks.len();
        if n == 0 {
            return ParIter { tasks: vec![], ordered: self.ordered };
        }
        let plan = plan_region(n, self.ordered);
        // run chunk by chunk; accumulate per chunk
        let accs: Mutex<Vec<(usize, Option<A>)>> = Mutex::new(plan.iter().map(|c| (c.index, None)).collect());
        let res = run_chunks(
            self.tasks,
            &plan,
            |c| c.index,
            |ci, t| {
                let items = t();
                let mut g = accs.lock().unwrap();
                let slot = g.iter_mut().find(|s| s.0 == *ci).unwrap();
                let mut acc = slot.1.take().unwrap_or_else(|| identity());
                for x in items {
                    acc = op(acc, x);
                }
                slot.1 = Some(acc);
            },
        );
        drop(res);
        let mut v = accs.into_inner().unwrap();
        v.sort_by_key(|s| s.0);
        ParIter {
            tasks: v.into_iter().filter_map(|(_, a)| a).map(|a| Box::new(move || vec![a]) as Box<dyn FnOnce() -> Vec<A> + Send + 'a>).collect(),
            ordered: self.ordered,
        }
    }

    fn run_ordered(self) -> Vec<T> {
        let ordered = self.ordered;
        let mut res = execute(self.tasks, ordered);
        if ordered {
            res.sort_by_key(|r| r.0);
        }
        res.into_iter().flat_map(|r| r.1).collect()
    }

    fn run_completion_order(self) -> Vec<T> {
        let ordered = self.ordered;
        execute(self.tasks, ordered).into_iter().flat_map(|r| r.1).collect()
    }

    pub fn collect<C: FromParallelIterator<T>>(self) -> C {
        C::from_ordered_vec(self.run_ordered())
    }

    pub fn collect_into_vec(self, target: &mut Vec<T>) {
        *target = self.run_ordered();
    }

    pub fn for_each<F: Fn(T) + Sync + Send + 'a>(self, f: F) {
        // side effects happen in completion order
        let n = self.tasks.len();
        if n == 0 {
            return;
        }
        let f = Arc::new(f);
        let tasks: Vec<Box<dyn FnOnce() -> Vec<()> + Send + 'a>> = self
            .tasks
            .into_iter()
            .map(|t| {
                let f = f.clone();
                Box::new(move || {
                    for x in t() {
                        f(x);
                    }
                    vec![]
                }) as Box<dyn FnOnce() -> Vec<()> + Send + 'a>
            })
            .collect();
        let _ = execute(tasks, self.ordered);
    }

    pub fn for_each_with<S: Clone + Send + 'a, F: Fn(&mut S, T) + Sync + Send + 'a>(self, init: S, f: F) {
        let init = Mutex::new(init);
        let _ = self.map_init(move || init.lock().unwrap().clone(), move |s, x| f(s, x)).run_completion_order();
    }

    /// Combine per-chunk partial results in index order (grouping depends on the partition).
    pub fn reduce<ID: Fn() -> T + Sync + Send + 'a, F: Fn(T, T) -> T + Sync + Send + 'a>(self, identity: ID, op: F) -> T {
        let op = Arc::new(op);
        let op2 = op.clone();
        let id = Arc::new(identity);
        let id2 = id.clone();
        let parts: Vec<T> = self.fold(move || id2(), move |a, b| op2(a, b)).run_ordered();
        let mut acc = id();
        for p in parts {
            acc = op(acc, p);
        }
        acc
    }

    pub fn reduce_with<F: Fn(T, T) -> T + Sync + Send + 'a>(self, op: F) -> Option<T> {
        let op = Arc::new(op);
        let op2 = op.clone();
        let parts: Vec<Option<T>> = self
            .fold(|| None, move |a: Option<T>, b| match a {
                None => Some(b),
                Some(a) => Some(op2(a, b)),
            })
            .run_ordered();
        let mut acc: Option<T> = None;
        for p in parts.into_iter().flatten() {
            acc = Some(match acc {
                None => p,
                Some(a) => op(a, p),
            });
        }
        acc
    }

    pub fn sum<S: std::iter::Sum<T> + std::iter::Sum<S> + Send + 'a>(self) -> S {
        // per chunk sums, then the sum of the partial sums (index order)
        let parts: Vec<S> = self.fold(Vec::new, |mut v: Vec<T>, x| {
            v.push(x);
            v
        })
        .run_ordered()
        .into_iter()
        .map(|v| v.into_iter().sum::<S>())
        .collect();
        parts.into_iter().sum()
    }

    pub fn count(self) -> usize {
        self.run_ordered().len()
    }

    pub fn min_by<F: Fn(&T, &T) -> std::cmp::Ordering + Sync + Send + 'a>(self, f: F) -> Option<T> {
        self.run_ordered().into_iter().min_by(|a, b| f(a, b))
    }

    pub fn max_by<F: Fn(&T, &T) -> std::cmp::Ordering + Sync + Send + 'a>(self, f: F) -> Option<T> {
        self.run_ordered().into_iter().max_by(|a, b| f(a, b))
    }

    pub fn any<F: Fn(T) -> bool + Sync + Send + 'a>(self, f: F) -> bool {
        self.run_ordered().into_iter().any(f)
    }

    pub fn all<F: Fn(T) -> bool + Sync + Send + 'a>(self, f: F) -> bool {
        self.run_ordered().into_iter().all(f)
    }

    /// `find_any`: the first match in completion order.
    pub fn find_any<F: Fn(&T) -> bool + Sync + Send + 'a>(self, f: F) -> Option<T> {
        self.run_completion_order().into_iter().find(|x| f(x))
    }

    pub fn find_first<F: Fn(&T) -> bool + Sync + Send + 'a>(self, f: F) -> Option<T> {
        self.run_ordered().into_iter().find(|x| f(x))
    }

    // ---- further adaptors and consumers a realistic change may reach for (same model: per-item tasks, chunks) ----

    /// Indexed adaptors: defined for iterators with exactly one item per task (rayon's indexed iterators).
    pub fn rev(self) -> ParIter<'a, T> {
        let mut tasks: Vec<Box<dyn FnOnce() -> Vec<T> + Send + 'a>> = self
            .tasks
            .into_iter()
            .map(|t| {
                Box::new(move || {
                    let mut v = t();
                    v.reverse();
                    v
                }) as Box<dyn FnOnce() -> Vec<T> + Send + 'a>
            })
            .collect();
        tasks.reverse();
        ParIter { tasks, ordered: self.ordered }
    }

    pub fn skip(mut self, n: usize) -> ParIter<'a, T> {
        let n = n.min(self.tasks.len());
        self.tasks.drain(..n);
        self
    }

    pub fn take(mut self, n: usize) -> ParIter<'a, T> {
        self.tasks.truncate(n);
        self
    }

    pub fn step_by(self, step: usize) -> ParIter<'a, T> {
        let ordered = self.ordered;
        ParIter { tasks: self.tasks.into_iter().step_by(step.max(1)).collect(), ordered }
    }

    pub fn chain<Z: IntoParallelIterator<'a, Item = T>>(mut self, other: Z) -> ParIter<'a, T> {
        let o = other.into_par_iter();
        self.ordered = self.ordered && o.ordered;
        self.tasks.extend(o.tasks);
        self
    }

    pub fn inspect<F: Fn(&T) + Sync + Send + 'a>(self, f: F) -> ParIter<'a, T> {
        self.map(move |x| {
            f(&x);
            x
        })
    }

    pub fn update<F: Fn(&mut T) + Sync + Send + 'a>(self, f: F) -> ParIter<'a, T> {
        self.map(move |mut x| {
            f(&mut x);
            x
        })
    }

    /// `IndexedParallelIterator::chunks`: groups of `size` consecutive items.
    pub fn chunks(self, size: usize) -> ParIter<'a, Vec<T>> {
        let ordered = self.ordered;
        let mut groups: Vec<Vec<Box<dyn FnOnce() -> Vec<T> + Send + 'a>>> = vec![];
        for t in self.tasks {
            if groups.last().map_or(true, |g| g.len() >= size.max(1)) {
                groups.push(vec![]);
            }
            groups.last_mut().unwrap().push(t);
        }
        ParIter {
            tasks: groups
                .into_iter()
                .map(|g| Box::new(move || vec![g.into_iter().flat_map(|t| t()).collect::<Vec<T>>()]) as Box<dyn FnOnce() -> Vec<Vec<T>> + Send + 'a>)
                .collect(),
            ordered,
        }
    }

    /// Per-chunk clone of `init` (rayon: one clone per split).
    pub fn map_with<S: Clone + Send + 'a, U: Send + 'a, F: Fn(&mut S, T) -> U + Sync + Send + 'a>(self, init: S, f: F) -> ParIter<'a, U> {
        let init = Mutex::new(init);
        self.map_init(move || init.lock().unwrap().clone(), f)
    }

    pub fn fold_with<A: Clone + Send + 'a, F: Fn(A, T) -> A + Sync + Send + 'a>(self, init: A, op: F) -> ParIter<'a, A> {
        let init = Mutex::new(init);
        self.fold(move || init.lock().unwrap().clone(), op)
    }

    pub fn min(self) -> Option<T>
    where
        T: Ord,
    {
        self.run_ordered().into_iter().min()
    }

    pub fn max(self) -> Option<T>
    where
        T: Ord,
    {
        self.run_ordered().into_iter().max()
    }

    pub fn min_by_key<K: Ord, F: Fn(&T) -> K + Sync + Send + 'a>(self, f: F) -> Option<T> {
        self.run_ordered().into_iter().min_by_key(|x| f(x))
    }

    pub fn max_by_key<K: Ord, F: Fn(&T) -> K + Sync + Send + 'a>(self, f: F) -> Option<T> {
        self.run_ordered().into_iter().max_by_key(|x| f(x))
    }

    /// The first error in completion order (rayon: any one of the errors).
    pub fn try_for_each<E: Send + 'a, F: Fn(T) -> Result<(), E> + Sync + Send + 'a>(self, f: F) -> Result<(), E> {
        for r in self.map(f).run_completion_order() {
            r?;
        }
        Ok(())
    }

    /// `position_any`: the position (in index order) of the match that completes first.
    pub fn position_any<F: Fn(T) -> bool + Sync + Send + 'a>(self, f: F) -> Option<usize> {
        let hits: Vec<(usize, bool)> = self.enumerate().map(move |(i, x)| (i, f(x))).run_completion_order();
        hits.into_iter().find(|h| h.1).map(|h| h.0)
    }

    pub fn position_first<F: Fn(T) -> bool + Sync + Send + 'a>(self, f: F) -> Option<usize> {
        self.run_ordered().into_iter().position(f)
    }

    pub fn partition<A: FromParallelIterator<T>, B: FromParallelIterator<T>, P: Fn(&T) -> bool + Sync + Send + 'a>(self, pred: P) -> (A, B) {
        let (a, b): (Vec<T>, Vec<T>) = self.run_ordered().into_iter().partition(|x| pred(x));
        (A::from_ordered_vec(a), B::from_ordered_vec(b))
    }

    pub fn unzip<A: Send, B: Send, CA: FromParallelIterator<A>, CB: FromParallelIterator<B>>(self) -> (CA, CB)
    where
        T: Into<(A, B)>,
    {
        let (a, b): (Vec<A>, Vec<B>) = self.run_ordered().into_iter().map(|x| x.into()).unzip();
        (CA::from_ordered_vec(a), CB::from_ordered_vec(b))
    }
}

pub trait FromParallelIterator<T> {
    fn from_ordered_vec(v: Vec<T>) -> Self;
}

impl<T, C: FromIterator<T>> FromParallelIterator<T> for C {
    fn from_ordered_vec(v: Vec<T>) -> Self {
        v.into_iter().collect()
    }
}

// ---------------------------------------------------------------------------------------------
// Sources

pub trait IntoParallelIterator<'a> {
    type Item: Send + 'a;
    fn into_par_iter(self) -> ParIter<'a, Self::Item>;
}

impl<'a, T: Send + 'a> IntoParallelIterator<'a> for ParIter<'a, T> {
    type Item = T;
    fn into_par_iter(self) -> ParIter<'a, T> {
        self
    }
}

impl<'a, T: Send + 'a> IntoParallelIterator<'a> for Vec<T> {
    type Item = T;
    fn into_par_iter(self) -> ParIter<'a, T> {
        ParIter::from_items(self.into_iter())
    }
}

impl<'a, T: Sync + 'a> IntoParallelIterator<'a> for &'a Vec<T> {
    type Item = &'a T;
    fn into_par_iter(self) -> ParIter<'a, &'a T> {
        ParIter::from_items(self.iter())
    }
}

impl<'a, T: Sync + 'a> IntoParallelIterator<'a> for &'a [T] {
    type Item = &'a T;
    fn into_par_iter(self) -> ParIter<'a, &'a T> {
        ParIter::from_items(self.iter())
    }
}

impl<'a, T: Send + 'a> IntoParallelIterator<'a> for &'a mut Vec<T> {
    type Item = &'a mut T;
    fn into_par_iter(self) -> ParIter<'a, &'a mut T> {
        ParIter::from_items(self.iter_mut())
    }
}

impl<'a, T: Send + 'a> IntoParallelIterator<'a> for &'a mut [T] {
    type Item = &'a mut T;
    fn into_par_iter(self) -> ParIter<'a, &'a mut T> {
        ParIter::from_items(self.iter_mut())
    }
}

impl<'a> IntoParallelIterator<'a> for std::ops::Range<usize> {
    type Item = usize;
    fn into_par_iter(self) -> ParIter<'a, usize> {
        ParIter::from_items(self)
    }
}

impl<'a> IntoParallelIterator<'a> for std::ops::Range<u32> {
    type Item = u32;
    fn into_par_iter(self) -> ParIter<'a, u32> {
        ParIter::from_items(self)
    }
}

impl<'a> IntoParallelIterator<'a> for std::ops::Range<i32> {
    type Item = i32;
    fn into_par_iter(self) -> ParIter<'a, i32> {
        ParIter::from_items(self)
    }
}

pub trait IntoParallelRefIterator<'a> {
    type Item: Send + 'a;
    fn par_iter(&'a self) -> ParIter<'a, Self::Item>;
}

impl<'a, T: Sync + 'a> IntoParallelRefIterator<'a> for Vec<T> {
    type Item = &'a T;
    fn par_iter(&'a self) -> ParIter<'a, &'a T> {
        ParIter::from_items(self.iter())
    }
}

impl<'a, T: Sync + 'a> IntoParallelRefIterator<'a> for [T] {
    type Item = &'a T;
    fn par_iter(&'a self) -> ParIter<'a, &'a T> {
        ParIter::from_items(self.iter())
    }
}

pub trait IntoParallelRefMutIterator<'a> {
    type Item: Send + 'a;
    fn par_iter_mut(&'a mut self) -> ParIter<'a, Self::Item>;
}

impl<'a, T: Send + 'a> IntoParallelRefMutIterator<'a> for Vec<T> {
    type Item = &'a mut T;
    fn par_iter_mut(&'a mut self) -> ParIter<'a, &'a mut T> {
        ParIter::from_items(self.iter_mut())
    }
}

impl<'a, T: Send + 'a> IntoParallelRefMutIterator<'a> for [T] {
    type Item = &'a mut T;
    fn par_iter_mut(&'a mut self) -> ParIter<'a, &'a mut T> {
        ParIter::from_items(self.iter_mut())
    }
}

/// `par_bridge`: items are pulled in sequence order but results arrive in completion order.
pub trait ParallelBridge: Sized {
    type Item: Send;
    fn par_bridge<'a>(self) -> ParIter<'a, Self::Item>
    where
        Self::Item: 'a;
}

impl<I: Iterator + Send> ParallelBridge for I
where
    I::Item: Send,
{
    type Item = I::Item;
    fn par_bridge<'a>(self) -> ParIter<'a, I::Item>
    where
        I::Item: 'a,
    {
        let mut p = ParIter::from_items(self.collect::<Vec<_>>().into_iter());
        p.ordered = false;
        p
    }
}

// ---------------------------------------------------------------------------------------------
// Free functions and the thread pool facade

/// An environment answer: the controller decides among a small menu.
pub fn current_num_threads() -> usize {
    let w = workers();
    let menu = [w, 1, 16];
    menu[choose(usize::MAX, "current_num_threads", 3)]
}

pub fn current_thread_index() -> Option<usize> {
    None
}

pub fn join<A: FnOnce() -> RA + Send, B: FnOnce() -> RB + Send, RA: Send, RB: Send>(a: A, b: B) -> (RA, RB) {
    // either order
    if choose(usize::MAX, "join-order", 2) == 0 {
        let ra = a();
        let rb = b();
        (ra, rb)
    } else {
        let rb = b();
        let ra = a();
        (ra, rb)
    }
}

/// `rayon::scope`: spawned jobs run before the scope returns, in any order, on any worker (jobs spawned by jobs
/// included).
pub struct Scope<'scope> {
    #[allow(clippy::type_complexity)]
    jobs: Mutex<Vec<Box<dyn FnOnce(&Scope<'scope>) + Send + 'scope>>>,
}

impl<'scope> Scope<'scope> {
    pub fn spawn<F: FnOnce(&Scope<'scope>) + Send + 'scope>(&self, f: F) {
        self.jobs.lock().unwrap().push(Box::new(f));
    }
}

pub fn scope<'scope, R, F: FnOnce(&Scope<'scope>) -> R>(f: F) -> R {
    let s = Scope { jobs: Mutex::new(vec![]) };
    let r = f(&s);
    loop {
        let mut jobs = std::mem::take(&mut *s.jobs.lock().unwrap());
        if jobs.is_empty() {
            break;
        }
        let region = next_region(jobs.len());
        let w = workers();
        while !jobs.is_empty() {
            let k = choose(region, "next-spawned", jobs.len());
            let job = jobs.remove(k);
            let worker = choose(region, "worker", w);
            let sref = &s;
            run_on_worker(worker, Box::new(move || job(sref)));
        }
    }
    r
}

#[derive(Default)]
pub struct ThreadPoolBuilder {
    n: usize,
}

#[derive(Debug)]
pub struct ThreadPoolBuildError;

impl std::fmt::Display for ThreadPoolBuildError {
    fn fmt(&self, f: &mut std::fmt::Formatter<'_>) -> std::fmt::Result {
        write!(f, "thread pool build error")
    }
}

impl std::error::Error for ThreadPoolBuildError {}

pub struct ThreadPool;

impl ThreadPoolBuilder {
    pub fn new() -> Self {
        Self { n: 0 }
    }
    pub fn num_threads(mut self, n: usize) -> Self {
        self.n = n;
        self
    }
    pub fn build(self) -> Result<ThreadPool, ThreadPoolBuildError> {
        Ok(ThreadPool)
    }
    pub fn build_global(self) -> Result<(), ThreadPoolBuildError> {
        Ok(())
    }
}

impl ThreadPool {
    pub fn install<R: Send, F: FnOnce() -> R + Send>(&self, f: F) -> R {
        f()
    }
}

#[cfg(test)]
mod tests {
    use super::prelude::*;
    use super::*;

    #[test]
    fn surface_and_model() {
        // default schedule: everything behaves like the sequential iterator
        let (r, log, _, div) = controlled(&[], 2, || {
            let mut v: Vec<(u32, u32)> = (0..10u32).map(|i| (i % 3, i)).collect();
            v.par_sort_unstable_by_key(|x| x.0);
            let a: Vec<u32> = v.par_chunks(3).map(|c| c.iter().map(|x| x.1).sum::<u32>()).collect();
            let mut w = vec![0u32; 6];
            w.par_chunks_mut(2).enumerate().for_each(|(i, c)| c.iter_mut().for_each(|x| *x = i as u32));
            let mut e: Vec<u32> = vec![];
            e.par_extend((0..4u32).into_par_iter().rev().skip(1).take(2));
            let out = Mutex::new(vec![]);
            scope(|s| {
                for i in 0..3 {
                    let out = &out;
                    s.spawn(move |_| out.lock().unwrap().push(i));
                }
            });
            let m = (0..5usize).into_par_iter().map_with(0usize, |s, x| {
                *s += 1;
                x + *s
            }).max();
            (v, a, w, e, out.into_inner().unwrap(), m)
        });
        assert!(div.is_none());
        assert_eq!(r.0.iter().map(|x| x.1).collect::<Vec<_>>(), vec![0, 3, 6, 9, 1, 4, 7, 2, 5, 8]);
        assert_eq!(r.2, vec![0, 0, 1, 1, 2, 2]);
        assert_eq!(r.3, vec![2, 1]);
        assert_eq!(r.4, vec![0, 1, 2]);
        assert_eq!(r.5, Some(9));
        assert!(log.iter().any(|c| c.kind == "unstable-sort-ties"));
        assert!(log.iter().any(|c| c.kind == "next-spawned"));
        // one deviation: the unstable sort returns its ties in the other order
        let pos = log.iter().position(|c| c.kind == "unstable-sort-ties").unwrap();
        let mut prefix = vec![0; pos];
        prefix.push(1);
        let (r2, _, _, _) = controlled(&prefix, 2, || {
            let mut v: Vec<(u32, u32)> = (0..10u32).map(|i| (i % 3, i)).collect();
            v.par_sort_unstable_by_key(|x| x.0);
            v
        });
        assert_eq!(r2.iter().map(|x| x.1).collect::<Vec<_>>(), vec![9, 6, 3, 0, 7, 4, 1, 8, 5, 2]);
        // coarse alphabet: a region of 1000 items offers 7 cut points
        let (_, log3, _, _) = controlled(&[], 2, || (0..1000usize).into_par_iter().map(|x| x).collect::<Vec<_>>());
        assert_eq!(log3.iter().filter(|c| c.kind == "cut").count(), 7);
    }
}
