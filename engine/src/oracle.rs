//! O-cell: the definition of a Voronoi cell, computed by brute force.
//!
//! The cell of generator i is the box clipped by the bisector half-space of every other generator
//! (periodic: every image with shifts in {-2..2}^d, including the generator's own images, and no
//! bounding walls along periodic axes). Plain polygon clipping in f64 in coordinates relative to
//! the generator. No safety radius, no dual representation, no exact predicate.

use crate::alpha::State;
use crate::util::*;
use glam::DVec3;

#[derive(Clone, Copy, Debug, PartialEq, Eq, Hash, PartialOrd, Ord)]
pub enum FaceKey {
    /// Wall 0..5 = x-low, x-high, y-low, y-high, z-low, z-high
    Wall(u8),
    /// Neighbour generator and lattice shift (in units of the box width)
    Ngb(usize, [i8; 3]),
    /// Artificial far wall used to bound periodic axes (must never survive)
    Far(u8),
}

impl FaceKey {
    pub fn describe(&self) -> String {
        match self {
            FaceKey::Wall(w) => format!("wall{}", w),
            FaceKey::Ngb(j, s) => format!("ngb{}[{},{},{}]", j, s[0], s[1], s[2]),
            FaceKey::Far(w) => format!("far{}", w),
        }
    }
}

#[derive(Clone, Debug)]
pub struct OFace {
    pub key: FaceKey,
    /// Unit outward normal
    pub normal: DVec3,
    pub area: f64,
    /// Global coordinates
    pub centroid: DVec3,
    pub perimeter: f64,
    /// Polygon in global coordinates, counter-clockwise seen from outside
    pub verts: Vec<DVec3>,
}

#[derive(Clone, Debug)]
pub struct OCell {
    pub gen: DVec3,
    pub volume: f64,
    pub centroid: DVec3,
    pub faces: Vec<OFace>,
    pub verts: Vec<DVec3>,
    pub surface: f64,
    /// Max distance generator -> vertex, in the active subspace
    pub max_vertex_dist_active: f64,
    /// Max distance generator -> vertex (3D)
    pub max_vertex_dist: f64,
    /// Moments of the cell relative to the generator: 1, x, y, z, xx, xy, xz, yy, yz, zz
    pub moments: [f64; 10],
}

#[derive(Clone)]
struct PFace {
    key: FaceKey,
    n: DVec3,
    d: f64,
    poly: Vec<DVec3>,
}

fn box_faces(lo: DVec3, hi: DVec3, keys: [FaceKey; 6]) -> Vec<PFace> {
    let c = |x: f64, y: f64, z: f64| v3(x, y, z);
    let (x0, y0, z0, x1, y1, z1) = (lo.x, lo.y, lo.z, hi.x, hi.y, hi.z);
    vec![
        // x-low: outward -X, ccw seen from outside
        PFace { key: keys[0], n: -DVec3::X, d: -x0, poly: vec![c(x0, y0, z0), c(x0, y0, z1), c(x0, y1, z1), c(x0, y1, z0)] },
        PFace { key: keys[1], n: DVec3::X, d: x1, poly: vec![c(x1, y0, z0), c(x1, y1, z0), c(x1, y1, z1), c(x1, y0, z1)] },
        PFace { key: keys[2], n: -DVec3::Y, d: -y0, poly: vec![c(x0, y0, z0), c(x1, y0, z0), c(x1, y0, z1), c(x0, y0, z1)] },
        PFace { key: keys[3], n: DVec3::Y, d: y1, poly: vec![c(x0, y1, z0), c(x0, y1, z1), c(x1, y1, z1), c(x1, y1, z0)] },
        PFace { key: keys[4], n: -DVec3::Z, d: -z0, poly: vec![c(x0, y0, z0), c(x0, y1, z0), c(x1, y1, z0), c(x1, y0, z0)] },
        PFace { key: keys[5], n: DVec3::Z, d: z1, poly: vec![c(x0, y0, z1), c(x1, y0, z1), c(x1, y1, z1), c(x0, y1, z1)] },
    ]
}

/// Clip the polytope by the half space n.x <= d. Returns true if anything was cut.
fn clip(faces: &mut Vec<PFace>, key: FaceKey, n: DVec3, d: f64, eps_rel: f64) -> bool {
    // tolerance relative to the magnitudes involved (coordinates are relative to the generator)
    let maxr = faces.iter().flat_map(|f| f.poly.iter()).map(|v| v.length()).fold(0., f64::max);
    let eps = eps_rel * (maxr.min(4. * d.abs()) + d.abs());
    // Is any vertex strictly outside?
    let mut any_out = false;
    'outer: for f in faces.iter() {
        for v in &f.poly {
            if n.dot(*v) - d > eps {
                any_out = true;
                break 'outer;
            }
        }
    }
    if !any_out {
        return false;
    }
    let mut cap: Vec<DVec3> = vec![];
    let mut new_faces: Vec<PFace> = Vec::with_capacity(faces.len() + 1);
    for f in faces.iter() {
        let m = f.poly.len();
        let s: Vec<f64> = f.poly.iter().map(|v| n.dot(*v) - d).collect();
        let mut out: Vec<DVec3> = Vec::with_capacity(m + 2);
        for i in 0..m {
            let j = (i + 1) % m;
            let (vi, vj, si, sj) = (f.poly[i], f.poly[j], s[i], s[j]);
            let i_in = si <= eps;
            let j_in = sj <= eps;
            if i_in {
                out.push(vi);
                if si.abs() <= eps {
                    cap.push(vi);
                }
            }
            // strict crossing
            if (si < -eps && sj > eps) || (si > eps && sj < -eps) {
                let t = si / (si - sj);
                let p = vi + (vj - vi) * t;
                out.push(p);
                cap.push(p);
            }
            let _ = j_in;
        }
        if out.len() >= 3 {
            new_faces.push(PFace { key: f.key, n: f.n, d: f.d, poly: out });
        }
    }
    // Build the cap polygon
    // dedupe
    let merge = eps * 4.;
    let mut pts: Vec<DVec3> = vec![];
    for p in cap {
        if !pts.iter().any(|q| q.distance(p) <= merge) {
            pts.push(p);
        }
    }
    if pts.len() >= 3 {
        let c = pts.iter().fold(DVec3::ZERO, |a, b| a + *b) / pts.len() as f64;
        // basis in the plane such that (u, v, n) is right handed -> ccw seen from outside (from +n)
        let u = n.any_orthonormal_vector();
        let v = n.cross(u);
        let mut ang: Vec<(f64, DVec3)> = pts.iter().map(|p| ((*p - c).dot(v).atan2((*p - c).dot(u)), *p)).collect();
        ang.sort_by(|a, b| a.0.partial_cmp(&b.0).unwrap());
        new_faces.push(PFace { key, n, d, poly: ang.into_iter().map(|a| a.1).collect() });
    }
    *faces = new_faces;
    true
}

fn poly_area_centroid(poly: &[DVec3], n: DVec3) -> (f64, DVec3, f64) {
    let mut area = 0.;
    let mut csum = DVec3::ZERO;
    let v0 = poly[0];
    for k in 1..poly.len() - 1 {
        let a = 0.5 * (poly[k] - v0).cross(poly[k + 1] - v0).dot(n);
        area += a;
        csum += a * (v0 + poly[k] + poly[k + 1]);
    }
    let mut per = 0.;
    for k in 0..poly.len() {
        per += poly[k].distance(poly[(k + 1) % poly.len()]);
    }
    let c = if area.abs() > 0. { csum / (3. * area) } else { v0 };
    (area, c, per)
}

/// Shift range used by the oracle for periodic images (deliberately wider than the library's).
pub const ORACLE_IMAGES: i32 = 2;

pub fn oracle_cell(st: &State, i: usize) -> OCell {
    oracle_cell_with(st, i, ORACLE_IMAGES)
}

pub fn oracle_cell_with(st: &State, i: usize, images: i32) -> OCell {
    let a = st.norm_anchor();
    let w = st.norm_width();
    let g = st.gen_loc(i);
    let dim = st.dim;
    let lscale = w.x.max(w.y).max(w.z);
    let eps = 1e-14;
    let _ = lscale;

    // initial box, relative to the generator
    let mut lo = a - g;
    let mut hi = a + w - g;
    let mut keys = [FaceKey::Wall(0), FaceKey::Wall(1), FaceKey::Wall(2), FaceKey::Wall(3), FaceKey::Wall(4), FaceKey::Wall(5)];
    if st.periodic {
        for ax in 0..dim {
            set_comp(&mut lo, ax, -3. * comp(w, ax));
            set_comp(&mut hi, ax, 3. * comp(w, ax));
            keys[2 * ax] = FaceKey::Far(2 * ax as u8);
            keys[2 * ax + 1] = FaceKey::Far(2 * ax as u8 + 1);
        }
    }
    let mut faces = box_faces(lo, hi, keys);

    // all half spaces
    let mut planes: Vec<(f64, FaceKey, DVec3)> = vec![];
    let r = |active: bool| if st.periodic && active { -images..=images } else { 0..=0 };
    for j in 0..st.n() {
        let gj = st.gen_loc(j);
        for sx in r(true) {
            for sy in r(dim >= 2) {
                for sz in r(dim >= 3) {
                    if j == i && sx == 0 && sy == 0 && sz == 0 {
                        continue;
                    }
                    let shift = v3(sx as f64 * w.x, sy as f64 * w.y, sz as f64 * w.z);
                    // (gj - g) first: both are inside the box, so the difference is accurate
                    let q = (gj - g) + shift;
                    planes.push((q.length_squared(), FaceKey::Ngb(j, [sx as i8, sy as i8, sz as i8]), q));
                }
            }
        }
    }
    planes.sort_by(|x, y| x.0.partial_cmp(&y.0).unwrap().then(x.1.cmp(&y.1)));
    for (q2, key, q) in planes {
        // pruning (exact): a bisector at distance |q|/2 beyond every vertex cannot cut
        let maxr2 = faces.iter().flat_map(|f| f.poly.iter()).map(|v| v.length_squared()).fold(0., f64::max);
        if 0.25 * q2 > maxr2 * (1. + 1e-9) {
            break;
        }
        let len = q2.sqrt();
        let n = q / len;
        clip(&mut faces, key, n, 0.5 * len, eps);
    }

    // measures
    let mut volume = 0.;
    let mut m = [0.; 10];
    let mut ofaces = vec![];
    let mut verts: Vec<DVec3> = vec![];
    let mut surface = 0.;
    for f in &faces {
        let (area, c, per) = poly_area_centroid(&f.poly, f.n);
        surface += area;
        // tetrahedra with the generator (origin) as apex
        let v0 = f.poly[0];
        for k in 1..f.poly.len() - 1 {
            let (p, q) = (f.poly[k], f.poly[k + 1]);
            let vol = v0.dot(p.cross(q)) / 6.;
            volume += vol;
            let s = v0 + p + q;
            m[0] += vol;
            m[1] += vol * s.x / 4.;
            m[2] += vol * s.y / 4.;
            m[3] += vol * s.z / 4.;
            let second = |fa: fn(DVec3) -> f64, fb: fn(DVec3) -> f64| -> f64 {
                let sa = fa(v0) + fa(p) + fa(q);
                let sb = fb(v0) + fb(p) + fb(q);
                let sab = fa(v0) * fb(v0) + fa(p) * fb(p) + fa(q) * fb(q);
                vol / 20. * (sab + sa * sb)
            };
            let (x, y, z): (fn(DVec3) -> f64, fn(DVec3) -> f64, fn(DVec3) -> f64) = (|v| v.x, |v| v.y, |v| v.z);
            m[4] += second(x, x);
            m[5] += second(x, y);
            m[6] += second(x, z);
            m[7] += second(y, y);
            m[8] += second(y, z);
            m[9] += second(z, z);
        }
        for v in &f.poly {
            if !verts.iter().any(|u| u.distance(*v) <= 8. * eps * (v.length() + 1e-300)) {
                verts.push(*v);
            }
        }
        ofaces.push(OFace {
            key: f.key,
            normal: f.n,
            area,
            centroid: c + g,
            perimeter: per,
            verts: f.poly.iter().map(|v| *v + g).collect(),
        });
    }
    let centroid_rel = if volume > 0. { v3(m[1], m[2], m[3]) / volume } else { DVec3::ZERO };
    let act = |v: DVec3| -> f64 {
        match dim {
            1 => v.x.abs(),
            2 => (v.x * v.x + v.y * v.y).sqrt(),
            _ => v.length(),
        }
    };
    let max_a = verts.iter().map(|v| act(*v)).fold(0., f64::max);
    let max_3 = verts.iter().map(|v| v.length()).fold(0., f64::max);
    OCell {
        gen: g,
        volume,
        centroid: centroid_rel + g,
        faces: ofaces,
        verts: verts.iter().map(|v| *v + g).collect(),
        surface,
        max_vertex_dist_active: max_a,
        max_vertex_dist: max_3,
        moments: m,
    }
}

/// Is this oracle face in the active subspace (i.e. reported in 1D/2D)?
pub fn face_is_active(dim: usize, f: &OFace) -> bool {
    match dim {
        1 => f.normal.y == 0. && f.normal.z == 0.,
        2 => f.normal.z == 0.,
        _ => true,
    }
}
