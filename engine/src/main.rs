#![allow(dead_code, unused_imports, unused_variables)]
//! vcheck: bounded exhaustive exploration of meshless_voronoi (see /verif/DESIGN.md).

mod alpha;
mod bigint;
mod checks;
mod obs;
mod oracle;
mod report;
mod tess;
mod util;

use alpha::*;
use report::*;

fn usage() -> ! {
    eprintln!("usage: vcheck <C01..C20> <quick|thorough> | vcheck replay <path>");
    std::process::exit(2);
}

fn main() {
    util::install_panic_hook();
    let args: Vec<String> = std::env::args().collect();
    if args.len() < 3 {
        usage();
    }
    if args[1] == "replay" {
        std::process::exit(checks::replay(&args[2]));
    }
    let prop = args[1].to_uppercase();
    let tier = args[2].as_str();
    if tier != "quick" && tier != "thorough" {
        usage();
    }
    let code = checks::run(&prop, tier);
    std::process::exit(code);
}

/// Run a per-state evaluation over the E1 families.
pub fn run_e1<F: Fn(&State) -> Eval + Sync>(run: &mut Run, dims: &[usize], periodic: &[bool], max_n: usize, f: F) {
    let fams = e1_families(run.thorough(), dims, periodic);
    for fam in fams {
        let states: Vec<State> = fam.states().into_iter().filter(|s| s.n() <= max_n).collect();
        run.family(fam.describe(), states.len() as u64);
        run.explore(&states, &f, |s| s.to_json());
    }
}
