#!/usr/bin/env python3
"""Generate /verif/MANIFEST.json from the table below (kept in one place so it stays consistent)."""
import json, subprocess

HOOK_COMMITS = ["fb5632b"]

ENGINES = [
    {"name": "E1 tess", "path": "engine/src/tess.rs, engine/src/oracle.rs, engine/src/checks/",
     "serves_properties": ["C01", "C02", "C03", "C04", "C05", "C06", "C07", "C08", "C12", "C13", "C14", "C15", "C16"],
     "kind_free_text": "explicit-state explorer over tessellation states (dimensionality, boundary kind, box, generator subset, mask); every state is built by the real API and judged by a brute-force Voronoi-cell oracle or by differential relations on transitions (mask flips, translations, added generators, rewritten unused coordinates)"},
    {"name": "E2 sched", "path": "sched/", "serves_properties": ["C09"],
     "kind_free_text": "stateless schedule explorer: the crate is compiled against a drop-in rayon shim whose parallel iterators hand partition / chunk order / worker decisions to the harness, enumerated depth-first with a deviation bound; conformance runs on real rayon"},
    {"name": "E3 pred", "path": "engine/src/checks/c10_11.rs", "serves_properties": ["C10", "C11"],
     "kind_free_text": "exhaustive predicate tables over small integer grids and sign-preserving embeddings into the 52-bit range, per big-integer back end"},
    {"name": "E4 clip", "path": "engine/src/checks/c18.rs", "serves_properties": ["C18"],
     "kind_free_text": "explicit-state search over storage orders of reachable convex cells (all permutations x rotations of removed vertices), confluence + closedness"},
    {"name": "E5 aux", "path": "engine/src/checks/c17.rs, c19.rs, c20.rs", "serves_properties": ["C17", "C19", "C20"],
     "kind_free_text": "exhaustive small-alphabet enumeration of neighbour-visit sequences, geometry helpers, knn and bounding spheres against brute force"},
]

E1_SPACE = (" State space (DESIGN section 9): every non-empty subset up to K of the lattice and general-position alphabets in 1D/2D/3D, reflective and periodic, three boxes plus a 2^-40 and a 2^20 box; every order of the generators in the input slice (n <= 3 quick / 4 thorough) where noted; deviation-bounded medium/large states (cell-centred 4^d lattice of 64/16 generators, Kronecker pools of 20/16/12 points, complete 125-point lattice in thorough, each with <= 1-2 generators removed; every subset of the 2^d cell-centred lattice); big-cell states (axis pair + ring of m, m-sided prism + neighbour above, jittered shells; m up to 300: more than 256 planes, faces, vertices per face, removed vertices per clip); masks: all 2^n up to the per-check bound, a deviation-bounded menu beyond.")

# id -> (engine, technique, level text, level note, design ref)
CHECKS = {
    "C01": ("E1 tess", "explicit-state enumeration of all small generator sets on lattice/generic alphabets; brute-force half-space-intersection oracle on every state",
            "Every cell of every enumerated state (all subsets up to K of each alphabet, 1D/2D/3D, reflective and periodic, box menu) is compared with the definition of a Voronoi cell: volume, centroid, vertex set, complete face list (no missing / spurious neighbour), and the stored face list under the ownership rule. A coverage statement over a finite input space, not a sample.",
            "Oracle = f64 polygon clipping in generator-relative coordinates (independent of the library's dual representation, safety radius and exact predicate); tolerances of DESIGN 1.5; the R9 wall-face finding is excused by a structural selector only for the area/centroid of that face.", "3/C01"),
    "C02": ("E1 tess", "explicit-state enumeration; invariant (positive measures, sum = box measure) on every state",
            "Sum of cell measures = box measure and every measure > 0 in every enumerated state, through Voronoi::build and through VolumeIntegral, including anisotropic/offset boxes and 1D/2D/periodic.",
            "Tolerance proportional to (|anchor|+width) * box surface * n; inputs outside the alphabets not covered.", "3/C02"),
    "C03": ("E1 tess", "explicit-state enumeration of (state, mask) pairs + mask-flip transitions; two-sided face comparison",
            "For every enumerated state: every face seen from cell i is seen from cell j with opposite shift, equal area, shifted centroid, opposite normal (non-symmetric face integrals); for every mask (n <= 4): every shared unshifted face is stored exactly once and listed by both cells, periodic faces come in reciprocal pairs, antisymmetric flux cancels; on every mask-flip edge ownership of unrelated faces is unchanged.",
            "Modulo negligible faces (area <= 1e-9 L^(d-1)), as the property states.", "3/C03"),
    "C04": ("E1 tess", "explicit-state enumeration of (state, mask) pairs; per-face and per-cell invariants",
            "Unit normals along right+shift-left or outward through the wall, centroids on the bisector/wall, closure and divergence identities for every constructed cell of every enumerated (state, mask).",
            "R9 wall faces: oracle area/centroid substituted for that single face in the two identities (known finding).", "3/C04"),
    "C05": ("E1 tess", "explicit-state enumeration of degenerate and near-degenerate input families in a debug-assertions and a release build; totality + C01-C04 verdict functions + every near-tie vertex decision checked against an integer (512-bit) determinant oracle",
            "Every state of families A (exact dyadic lattices: walls, edges, corners, single, collinear, coplanar, co-spherical subsets; generic pool), B1 (2^-20..2^-50 displacements), B2 (clusters 2^-10..2^-40), B3 (co-spherical integer shells, co-circular sets), C (thirds lattice), B4 (Fibonacci shells of up to 300 generators on one sphere, exact co-circular rings around an axis), D (medium/large lattices and pools, big cells), E (lattice alphabets with wall contact in the 2^-40 box; scale ladder 2^-8..2^-48) and the 4^3 lattice with <= 1 deviation is built through Voronoi::build, VoronoiIntegrator::build and build_partial (all masks, n <= 3), in both build kinds: no panic, finite values, C01-C04 verdicts, and 'vertex removed <=> exact determinant < 0' for every vertex the floating point filter leaves undecided (clip-by-clip replay through the hook wrappers).",
            "Known findings R5 and R11 (explicit lists of (clause, state id), one per build kind) and R9 (selector). Families A, B3 and L64 have no allowed failure. Inputs outside the families are not covered.", "3/C05"),
    "C06": ("E1 tess", "explicit-state enumeration of periodic states; differential oracle (reflective build of the 3^d-fold replicated set), structural invariants, translation transitions",
            "For every periodic state (n >= 1, incl. n = 1, 2): central block of the reflective tessellation of the replicated set equals the periodic result (volumes, centroids, face maps with image offsets); no boundary face along periodic axes; every shift is an exact lattice vector, absent iff zero, and places the right generator next to the face; 11-14 translations (wrapped) leave every cell measure and per-neighbour face area unchanged.",
            "The replicated comparison uses the library itself as oracle (the independent O-cell comparison of periodic states with +-2 images is part of C01); n <= 3 (quick) / 4 (thorough) for the replicated build.", "3/C06"),
    "C07": ("E1 tess", "explicit-state enumeration of the Boolean lattice of masks over every state; each node compared bitwise with the full build",
            "For every state and every mask (n <= 4 quick / 5 thorough; deviation-bounded masks above): selected cells bitwise equal to the full build (volume, centroid, loc, safety radius; ConvexCells bitwise through the integrator route), same face map, unselected cells zero, ownership rules of stored faces and of the symmetric face integrals, get_cell_at/cells_iter vs mask; the same restriction through the type-state conversions (after with_faces() slot i holds cell i or None exactly for unselected i; cell integrals and Voronoi::from(&with_faces) agree); every input order of the generators.",
            "Mask-flip edges are covered by transitivity (every node is compared with the same full build).", "3/C07"),
    "C08": ("E1 tess", "explicit-state enumeration of 1D/2D states; transitions = rewriting unused coordinates (all single deviations, all pairs with extreme values); closed form; 3D slab differential",
            "Bitwise invariance of the result under every rewrite of an unused coordinate of a generator, the anchor or the width (values incl. -0.0, 1e300, NaN, inf), 1D closed form (lengths, centroids, two unit faces, neighbours and shifts), 2D = 3D slab, all reported normals/shifts inside the active subspace.",
            "R9 excused for wall faces through a generator on the boundary.", "3/C08"),
    "C12": ("E1 tess", "explicit-state enumeration of (state, mask, route); structural invariants of the index structure",
            "Offsets = prefix sums, total = array length, every face listed by left, by right iff unshifted, by no other cell; neighbour_ids = other sides of listed non-boundary non-periodic faces, no duplicates, never self, for constructed and unconstructed cells; routes: direct, From<&VoronoiIntegrator>, with faces.", "Index bookkeeping only; geometry is C01/C03.", "3/C12"),
    "C13": ("E1 tess", "explicit-state enumeration of (state, mask); route-vs-route relations, bitwise",
            "Voronoi::from(&integrator) bitwise equals the direct build (all public accessors), cell integrals = stored values in index order, symmetric face integrals = face list in order, sym = non-sym minus faces of constructed lower-index unshifted neighbours (as sequences), with-faces vs without-faces to tolerance.", "R9 excused in the with/without-faces comparison only.", "3/C13"),
    "C14": ("E1 tess", "explicit-state enumeration of (state, mask, with/without faces); recording integrals implemented in this downstream crate; moment oracle",
            "The harness is a downstream crate implementing CellIntegral/FaceIntegral (compile-time witness of the first clause). For every constructed cell: apex = generator (bitwise), signed monomial sums (degree <= 2) = moments of the O-cell, results in index order under every mask; every base triangle lies in its face plane and signed areas sum to the face area; with/without faces agree.",
            "Compile-time facet: /verif/probe_c14 (public API only, plain and data-carrying integrals) is built and run first by ./check C14; a compile error located in the probe is reported as a violation. Per-cell data (datum = function of the generator index, Data = u64, only expressible since fix 307247f) must reach exactly the integrals of that cell under every mask through the three *_with_data entry points and the single-cell entry points, and the results must be bitwise those of the data-free entry points. Any downstream integral is a fold over the recorded sequence.", "3/C14"),
    "C15": ("E1 tess", "explicit-state enumeration of 3D (state, mask) pairs; polytope axioms on every cell; all type-state operation sequences up to depth 4",
            "Vertices on their three planes and inside all half-spaces, each in exactly three faces; faces planar, simple, convex, counter-clockwise about the inward normal, area = area integral = oracle; Euler; accessors agree with face integrals; discard_faces after with_faces is the identity; every sequence of {with_faces, discard_faces, clone, integrals} of length <= 4 leaves the observations of its type-state unchanged; with_faces on 1D/2D is rejected with the documented message.", "R9 excused for the area integral of wall faces through the generator.", "3/C15"),
    "C16": ("E1 tess", "explicit-state search over the add-a-generator graph: nodes = generator sets, edges = S -> S + p (alphabet points and ring points around every safety ball)",
            "Node invariant: safety radius >= 2 x farthest oracle vertex (active subspace) and >= distance to every face neighbour. Edge relations: a generator added outside the safety ball (all periodic images) leaves the cell unchanged (measure, centroid, face map); no cell grows.", "Ring points that hit the R5 class (panic) are counted, not judged.", "3/C16"),
    "C09": ("E2 sched", "stateless schedule exploration (depth-first over choice sequences, deviation-bounded) of the real crate compiled against a controlled executor with rayon's API; conformance against the sequential build and real rayon pools",
            "The crate's real closures run on real OS worker threads under a scheduler that owns every decision of rayon's contract (partition into contiguous chunks, chunk order, worker of each chunk, answer of current_num_threads). For inputs with <= 4 generators every parallel region of the whole pipeline (build, build_partial, integrator build, with_faces, every compute_*, From) is explored exhaustively (554 schedules for 4 items, W = 2) while the others take the default schedule, plus all schedules with <= 2 deviations anywhere; larger inputs (8, 12, 27 generators; exact ties) with <= 2 / <= 1 deviations. Oracle: byte equality of a sectioned digest of all outputs with the default schedule, with a second run of the same schedule, with the sequential (no rayon feature) build and with real rayon pools of 1,2,3,4,8,16,64 threads. Nested parallel regions (a chunk that enters a parallel region) are planned and explored like top-level ones; one input has a 136-vertex cell. Call histories: every ordered pair of the 20 inputs (thorough: every triple of the 12 history-only inputs too, which collide on width / dimensionality / boundary kind / generator count / length scale) run one after the other on the persistent workers of one fresh real pool (1 and 2 threads): the last result must be the result of that input alone (state leaking between calls through thread-locals, statics or caches).",
            "The scheduling model is rayon's documented contract, not rayon-core's lock-free internals (third-party std atomics that loom/shuttle cannot intercept). Real-rayon runs are a conformance sample. The shim models the API subset the crate uses plus for_each, fold, reduce, sum, map_init, par_bridge, flat_map, join, current_num_threads; a change using anything else fails to build and is reported as a machinery error (exit 2), not as a verdict.", "3/C09"),
    "C10": ("E3 pred", "exhaustive enumeration of predicate inputs on small integer grids and their embeddings into the 52-bit range, against exact integer oracles; exhaustive grid-map tables",
            "All 248 832 5-tuples of the grid {0,1,2}x{0,1}x{0,1} (thorough: all 14 348 907 of {0,1,2}^3) through the exact predicate vs the i128 determinant, the geometric meaning (orientation x exact rational circumsphere) and a 512-bit oracle; each tuple under 60+ embeddings into [0,2^52) (scales up to 2^50, translations to the corners/centre, axis permutations, reflections: sign = parity); adversarial co-spherical families with +-1 displacements at 2^20..2^50 scale and integer points on three large spheres; orientation of every vertex dual of every reachable cell of the 3D states (on the library's own integers); grid map range / monotonicity / uniform scaling over every queryable position (box lattice, six wall mirrors, 3^d images) of every box x dimensionality x boundary kind. Run in a debug-assertions and a release build.",
            "The property's 'randomly on the full range' is replaced by structured exhaustive families (sampling is not this technique's evidence).", "3/C10"),
    "C11": ("E3 pred", "the same exhaustive tables and state families run once per big-integer back end (four separately built binaries); case-by-case comparison of digest streams",
            "ibig, dashu, malachite and num_bigint builds each produce one digest per case for the complete C10 predicate tables (with embeddings and adversarial families) and for every state of the C05 families (bitwise tessellation digest incl. vertex duals, or the panic message); the four streams must be identical case by case.",
            "rug cannot be built in the sandbox (GMP configure needs m4).", "3/C11"),
    "C17": ("E5 aux", "exhaustive enumeration of generator sets x query generator through the hook wrapper of the neighbour iterators; brute-force oracle",
            "For every subset of the 1D lattice, of a 3x3 (thorough 4x4) 2D lattice, 3D lattice subsets up to K, generic pool subsets, and perfect 4^3 (5^3) lattices with <= 1 generator removed, reflective and periodic, three boxes: first item = (query, no shift); every generator (periodic: each of its 3^d images) visited exactly once; shifts are exact lattice vectors, absent iff zero; distances non-decreasing (strict comparison where the arithmetic is exact, coordinate-scaled tolerance otherwise).",
            "Point sets up to 125 generators; 10^4-point sets are outside the bound.", "3/C17"),
    "C18": ("E4 clip", "explicit-state search over storage orders: all permutations x rotations of the removed vertices of every reachable (cell, plane) pair; exhaustive drive of the boundary cycle over all small triangulated disks",
            "Cells = every intermediate and final cell the builder reaches for the 3D states (rebuilt clip by clip through the hook), planes = the builder's next neighbour and the bisector towards every unused alphabet point; all |R|! orders (|R| <= 6 quick / 7 thorough) x all 3^|R| rotations (|R| <= 3 / 4; patterns above) x arrangements of the kept vertices: same canonical vertex set and volume as the unpermuted clip, closed polytope, Euler, never a panic. Companion: the real SimpleCycle driven by the builder's greedy loop over every order of every triangulated disk with <= 6 / 7 triangles: never stuck, always the disk's boundary. Cells with up to 300 planes (shell inputs, beyond any 8-bit counter); removed sets of up to 40 (quick) / 72 (thorough) vertices (m-sided prism cut by one plane) under a committed menu of orders (identity, every transposition, reversal, rotations, interleavings); the same clip from elsewhere: after a round trip with_faces().discard_faces() the clip must give the same polytope; a panic of the unpermuted clip of a reachable cell is a violation.",
            "A combinatorial configuration is enumerated completely once per run and re-clipped for two orders at later occurrences. Above the permutation bound the orders are deviation-bounded, as the property allows ('sampled above').", "3/C18"),
    "C19": ("E5 aux", "exhaustive enumeration of helper arguments on small integer lattices (x scales); defining equations evaluated in exact integer arithmetic",
            "intersect_planes for all triples of non-zero normals in {-2..2}^3 with det != 0 (normalised and not); project_onto / project_onto_intersection (on the plane/line, along the normal / orthogonal to the line, idempotent, exact value) incl. non-unit normals and three scales; signed_volume_tet / signed_area_tri on all 4-tuples of {0,1,2}^3 (value, sign convention, antisymmetry); spheres through all affinely independent 2-,3-,4-tuples; extend/contains on a sphere x point menu at three scales.", "Non-degenerate arguments only, as the property states.", "3/C19"),
    "C20": ("E5 aux", "exhaustive enumeration of small particle / point / sphere sets through the hook wrappers; brute-force oracles",
            "knn: all particle sets of size 2..K from a 4x4x2 lattice and the generic pool, all k < n, four box shapes, six grid cell sizes, plus all 3-sets of a fine planar lattice (particles close to cell faces, neighbours one and two cells away) for each narrow axis: returned neighbours compared with brute-force distances. Bounding spheres: all subsets of {0,1,2}^3 (two placements) and of the generic pool: Welzl contains all points and is minimal (all 2-,3-,4-point support spheres), Epos6 contains all points / spheres.",
            "Known finding: single-element sets (documented empty sphere; NaN). Distances are compared, not ids, so ties are not an alarm.", "3/C20"),
}

NOT_YET = {
}

def main():
    props = [json.loads(l) for l in open('/verif/properties.jsonl')]
    checks = []
    na = []
    for p in props:
        i = p['id']
        if i in CHECKS:
            eng, tech, text, note, ref = CHECKS[i]
            if eng == "E1 tess":
                text = text + E1_SPACE
            checks.append({
                "property_id": i,
                "quick_cmd": "./check %s quick" % i,
                "thorough_cmd": "./check %s thorough" % i,
                "evidence_file": "/verif/evidence/%s.json" % i,
                "replay_cmd_template": "./check replay {path}",
                "engine": eng,
                "level_claimed": {"category": "model_checking", "text": text, "design_ref": "DESIGN.md section " + ref},
                "level_note": note,
                "technique": tech,
            })
        else:
            na.append({"property_id": i, "reason": NOT_YET.get(i, "check not built yet in this round (design in DESIGN.md section 3); no claim is made")})
    m = {
        "version": 1,
        "setup_cmd": "/verif/scripts/setup.sh",
        "hooks": {
            "guard": "cargo feature verif_hooks of meshless_voronoi (off by default)",
            "enable": "harness crates depend on meshless_voronoi by path /repo with features = [\"verif_hooks\"]",
            "baseline_off_cmd": "/verif/scripts/baseline_off.sh",
            "source_commits": HOOK_COMMITS,
            "add_only": True,
        },
        "engines": ENGINES,
        "checks": checks,
        "not_applicable": na,
        "notes": "Fix commits in /repo (see known_findings.txt 'fixed:' lines): d8c26fa (C04 normal sign), d5646cf (C05/C10 integer grid), 682e940 (C12 inactive cell index), 0e935df (C14 marker trait export), aa2da1c (C20 Space cell positions), 5778456 (C20 Epos6 extremal points), 307247f (C14 data-carrying integrals implementable downstream). Known findings: known_findings.txt + known_findings/.",
    }
    json.dump(m, open('/verif/MANIFEST.json', 'w'), indent=1)
    print("checks:", len(checks), "not_applicable:", len(na))

main()
