//! Issues, known findings, evidence files, exit codes.

use crate::util::*;
use rayon::prelude::*;
use std::collections::{BTreeMap, HashSet};
use std::time::Instant;

/// Where the framework lives (known findings, evidence, replays): $VERIF_HOME, default /verif.
pub fn verif_dir() -> String {
    std::env::var("VERIF_HOME").unwrap_or_else(|_| "/verif".to_string())
}

#[derive(Clone, Debug)]
pub struct Issue {
    /// Short stable identifier of the violated clause / failing site, e.g. "volume-vs-oracle" or
    /// "panic:Degenerate 3-plane intersection!"
    pub clause: String,
    /// Full id of the failing case (state id + mask/transition/...)
    pub case: String,
    pub detail: String,
    /// Replay text (everything `vcheck replay` needs)
    pub replay: String,
}

/// Result of evaluating one case (state, transition, tuple, ...).
#[derive(Default)]
pub struct Eval {
    pub issues: Vec<Issue>,
    /// Excused discrepancies under a structural known-finding selector: (clause, count)
    pub excused: Vec<(String, u64)>,
    /// Outcome signature (combinatorial shape of what was observed) - for distinct_outcomes
    pub sig: u64,
    /// Is the case non-trivial by the check's rule?
    pub nontrivial: bool,
    /// Number of relations / transitions checked inside this case
    pub transitions: u64,
    /// Number of elementary evaluations on the real code (builds, predicate calls, clips ...)
    pub impl_runs: u64,
    /// Exact predicate invocations observed during this case
    pub exact_calls: u64,
    /// Optional extra counters
    pub counters: Vec<(&'static str, u64)>,
}

impl Eval {
    pub fn issue(&mut self, clause: impl Into<String>, case: impl Into<String>, detail: impl Into<String>, replay: impl Into<String>) {
        self.issues.push(Issue { clause: clause.into(), case: case.into(), detail: detail.into(), replay: replay.into() });
    }
    pub fn excuse(&mut self, clause: &str) {
        if let Some(e) = self.excused.iter_mut().find(|e| e.0 == clause) {
            e.1 += 1;
        } else {
            self.excused.push((clause.to_string(), 1));
        }
    }
    pub fn count(&mut self, name: &'static str, n: u64) {
        if let Some(e) = self.counters.iter_mut().find(|e| e.0 == name) {
            e.1 += n;
        } else {
            self.counters.push((name, n));
        }
    }
}

// ---------------------------------------------------------------------------------------------
// Known findings

#[derive(Clone, Debug)]
pub struct KnownFinding {
    pub property: String,
    pub clause: String,
    pub selector: bool,
    pub cases: HashSet<String>,
    pub what: String,
    pub name: String,
}

pub fn load_known_findings(property: &str) -> Vec<KnownFinding> {
    let path = format!("{}/known_findings.txt", verif_dir());
    let Ok(text) = std::fs::read_to_string(&path) else { return vec![] };
    let mut out = vec![];
    for line in text.lines() {
        let line = line.trim();
        let Some(rest) = line.strip_prefix("finding:") else { continue };
        let (head, what) = match rest.find(" what=") {
            Some(i) => (&rest[..i], rest[i + 6..].to_string()),
            None => (rest, String::new()),
        };
        let mut kf = KnownFinding {
            property: String::new(),
            clause: String::new(),
            selector: false,
            cases: HashSet::new(),
            what,
            name: String::new(),
        };
        // clause may contain spaces: it is given as clause="..."
        let mut head = head.to_string();
        if let Some(i) = head.find("clause=\"") {
            let restc = &head[i + 8..];
            if let Some(j) = restc.find('"') {
                kf.clause = restc[..j].to_string();
                head = format!("{}{}", &head[..i], &restc[j + 1..]);
            }
        }
        for tok in head.split_whitespace() {
            let Some((k, v)) = tok.split_once('=') else { continue };
            match k {
                "property" => kf.property = v.to_string(),
                "name" => kf.name = v.to_string(),
                "selector" => kf.selector = v == "true",
                "cases" => {
                    let p = format!("{}/{}", verif_dir(), v);
                    if let Ok(t) = std::fs::read_to_string(&p) {
                        for l in t.lines() {
                            let l = l.trim();
                            if !l.is_empty() && !l.starts_with('#') {
                                kf.cases.insert(l.to_string());
                            }
                        }
                    } else {
                        eprintln!("MACHINERY: cannot read known-findings case list {}", p);
                        std::process::exit(2);
                    }
                }
                _ => {}
            }
        }
        if kf.property == property {
            out.push(kf);
        }
    }
    out
}

// ---------------------------------------------------------------------------------------------
// A run of one check

pub struct Run {
    pub property: String,
    pub tier: String,
    pub seed: u64,
    pub start: Instant,
    pub rule: String,
    pub bounds: Vec<String>,
    pub assumptions: Vec<String>,
    pub exhaustive: bool,
    pub states: u64,
    pub transitions: u64,
    pub impl_runs: u64,
    pub exact_calls: u64,
    pub exact_states: u64,
    pub nontrivial_sigs: HashSet<u64>,
    pub all_sigs: HashSet<u64>,
    pub issues: Vec<Issue>,
    pub excused: BTreeMap<String, u64>,
    pub counters: BTreeMap<String, u64>,
    pub samples: Vec<J>,
    pub extra: Vec<(String, J)>,
    pub families: Vec<J>,
    pub caps_hit: Vec<String>,
    pub known: Vec<KnownFinding>,
    pub matched: BTreeMap<String, (u64, String)>,
    pub violation_counts: BTreeMap<String, u64>,
    /// Record mode (manual tool, never used by a registered check): write all unmatched (clause, case) pairs to this file
    pub record: Option<String>,
    pub recorded: Vec<String>,
}

impl Run {
    pub fn new(property: &str, tier: &str) -> Run {
        let seed = std::env::var("VERIF_SEED").ok().and_then(|s| s.parse::<u64>().ok()).unwrap_or(0);
        Run {
            property: property.to_string(),
            tier: tier.to_string(),
            seed,
            start: Instant::now(),
            rule: String::new(),
            bounds: vec![],
            assumptions: vec![],
            exhaustive: true,
            states: 0,
            transitions: 0,
            impl_runs: 0,
            exact_calls: 0,
            exact_states: 0,
            nontrivial_sigs: HashSet::new(),
            all_sigs: HashSet::new(),
            issues: vec![],
            excused: BTreeMap::new(),
            counters: BTreeMap::new(),
            samples: vec![],
            extra: vec![],
            families: vec![],
            caps_hit: vec![],
            known: load_known_findings(property),
            matched: BTreeMap::new(),
            violation_counts: BTreeMap::new(),
            record: std::env::var("VERIF_RECORD_FINDINGS").ok(),
            recorded: vec![],
        }
    }

    pub fn thorough(&self) -> bool {
        self.tier == "thorough"
    }

    pub fn absorb(&mut self, e: Eval) {
        self.states += 1;
        self.transitions += e.transitions;
        self.impl_runs += e.impl_runs;
        self.exact_calls += e.exact_calls;
        if e.exact_calls > 0 {
            self.exact_states += 1;
        }
        self.all_sigs.insert(e.sig);
        if e.nontrivial {
            self.nontrivial_sigs.insert(e.sig);
        }
        for (c, n) in e.excused {
            *self.excused.entry(c).or_insert(0) += n;
        }
        for (c, n) in e.counters {
            *self.counters.entry(c.to_string()).or_insert(0) += n;
        }
        for i in e.issues {
            let mut hit = None;
            for k in &self.known {
                if (k.clause == i.clause && (k.selector || k.cases.contains(&i.case))) || (k.clause == "*" && k.cases.contains(&format!("{}\t{}", i.clause, i.case))) {
                    hit = Some(k);
                    break;
                }
            }
            match hit {
                Some(k) => {
                    let en = self.matched.entry(format!("{} [{}]", k.name, if k.clause == "*" { i.clause.as_str() } else { k.clause.as_str() })).or_insert((0, k.what.clone()));
                    en.0 += 1;
                }
                None => {
                    if self.record.is_some() {
                        self.recorded.push(format!("{}\t{}", i.clause, i.case));
                    }
                    let c = self.violation_counts.entry(i.clause.clone()).or_insert(0);
                    *c += 1;
                    // keep at most 64 violations per clause in memory (all are counted)
                    if *c <= 64 {
                        self.issues.push(i);
                    }
                }
            }
        }
    }

    /// Evaluate all items in parallel and absorb the results. `sample` renders an item for the
    /// evidence file.
    pub fn explore<S: Sync, F: Fn(&S) -> Eval + Sync, G: Fn(&S) -> J + Sync>(&mut self, items: &[S], f: F, sample: G) {
        let t0 = Instant::now();
        let before = self.states;
        // the watchdog (see `watchdog`) can describe the items that are being evaluated when the library does not return
        let describe = |i: usize| -> String { sample(&items[i]).render() };
        let describe_ref: &(dyn Fn(usize) -> String + Sync) = &describe;
        let guard = watchdog::Describer::install(describe_ref, &self.property, &self.tier);
        let mut offset = 0usize;
        for chunk in items.chunks(65536) {
            let evals: Vec<Eval> = chunk
                .par_iter()
                .enumerate()
                .map(|(k, s)| {
                    let slot = watchdog::enter(offset + k);
                    let e = f(s);
                    watchdog::exit(slot);
                    e
                })
                .collect();
            offset += chunk.len();
            for e in evals {
                self.absorb(e);
            }
        }
        drop(guard);
        // samples: first, last and a seed-selected one
        if !items.is_empty() && self.samples.len() < 12 {
            let n = items.len();
            let mut idx = vec![0, n - 1, (self.seed as usize).wrapping_mul(2654435761) % n];
            idx.dedup();
            for i in idx {
                if self.samples.len() < 12 {
                    self.samples.push(sample(&items[i]));
                }
            }
        }
        let _ = before;
        // attribute the wall time to the family announced last
        if let Some(J::Obj(kv)) = self.families.last_mut() {
            let add = t0.elapsed().as_secs_f64();
            if let Some((_, J::Num(w))) = kv.iter_mut().find(|(k, _)| k.as_str() == "wall_s") {
                *w += add;
            } else {
                kv.push(("wall_s".into(), J::Num(add)));
            }
        }
    }

    pub fn family(&mut self, desc: String, count: u64) {
        self.families.push(J::obj(vec![("family", J::s(desc)), ("cases", J::Int(count as i64))]));
    }

    /// Write evidence, print verdict lines, return the process exit code.
    pub fn finish(mut self) -> i32 {
        if let Some(path) = &self.record {
            self.recorded.sort();
            self.recorded.dedup();
            let _ = std::fs::write(path, self.recorded.join("\n") + "\n");
            println!("RECORDED {} unmatched (clause, case) pairs to {}", self.recorded.len(), path);
        }
        let known = self.known.clone();
        let mut matched = std::mem::take(&mut self.matched);
        let violations: Vec<Issue> = self.issues.drain(..).collect();
        // excused-by-selector counts are known findings as well
        for (clause, n) in &self.excused {
            let k = known.iter().find(|k| k.selector && &k.clause == clause);
            match k {
                Some(k) => {
                    let e = matched.entry(format!("{} [{}]", k.name, k.clause)).or_insert((0, k.what.clone()));
                    e.0 += n;
                }
                None => {
                    // an excuse without a listed finding is a machinery error
                    eprintln!("MACHINERY: excused clause '{}' has no selector entry in known_findings.txt", clause);
                    return 2;
                }
            }
        }
        for (name, (n, what)) in &matched {
            println!("KNOWN-FINDING: property={} {} x{} : {}", self.property, name, n, what);
        }
        // violations: group by clause, write replay files
        let mut by_clause: BTreeMap<String, Vec<&Issue>> = BTreeMap::new();
        for v in &violations {
            by_clause.entry(v.clause.clone()).or_default().push(v);
        }
        let _ = std::fs::create_dir_all(format!("{}/replays", verif_dir()));
        let mut vio_json = vec![];
        // at most 12 clauses are printed / given replay files (all are counted); panic clauses whose messages differ only
        // in numbers would otherwise flood the output
        let total_clauses = by_clause.len();
        for (ci, (clause, list)) in by_clause.iter().enumerate() {
            if ci >= 12 {
                println!("  ... and {} more violated clauses (see the evidence file for the counts)", total_clauses - 12);
                break;
            }
            // shortest case id first
            let mut list: Vec<&&Issue> = list.iter().collect();
            list.sort_by_key(|i| (i.case.len(), i.case.clone()));
            for (n, i) in list.iter().enumerate() {
                if n >= 3 {
                    break;
                }
                let h = hash_str(&format!("{}|{}|{}", self.property, clause, i.case));
                let path = format!("{}/replays/{}-{:016x}.replay", verif_dir(), self.property, h);
                let text = format!("property={}\nclause={}\ncase={}\ndetail={}\n{}", self.property, clause, i.case, i.detail.replace('\n', " "), i.replay);
                let _ = std::fs::write(&path, text);
                println!("VIOLATION property={} replay={}", self.property, path);
                println!("  clause={} case={} ({} cases with this clause)", clause, i.case, self.violation_counts.get(clause.as_str()).copied().unwrap_or(0));
                println!("  {}", i.detail);
                vio_json.push(J::obj(vec![
                    ("clause", J::s(clause.clone())),
                    ("case", J::s(i.case.clone())),
                    ("detail", J::s(i.detail.clone())),
                    ("replay", J::s(path)),
                    ("cases_with_clause", J::Int(self.violation_counts.get(clause.as_str()).copied().unwrap_or(0) as i64)),
                ]));
            }
        }
        let nvio = self.violation_counts.values().sum::<u64>() as usize;
        let wall = self.start.elapsed().as_secs_f64();
        if self.samples.is_empty() {
            self.samples.push(J::s("no sample recorded"));
        }
        let mut cov = vec![
            ("states", J::Int(self.states.max(1) as i64)),
            ("transitions", J::Int(self.transitions.max(1) as i64)),
            ("traces_validated_against_impl", J::Int(self.impl_runs as i64)),
            ("samples", J::Arr(self.samples.clone())),
            ("evaluations", J::Int(self.impl_runs.max(self.states).max(1) as i64)),
            ("distinct_nontrivial", J::Int(self.nontrivial_sigs.len() as i64)),
            ("distinct_outcomes", J::Int(self.all_sigs.len() as i64)),
            ("rule", J::s(self.rule.clone())),
            ("exhaustive", J::Bool(self.exhaustive && self.caps_hit.is_empty())),
            ("bounds", J::Arr(self.bounds.iter().map(|b| J::s(b.clone())).collect())),
            ("caps_hit", J::Arr(self.caps_hit.iter().map(|b| J::s(b.clone())).collect())),
            ("exact_predicate_calls", J::Int(meshless_voronoi::verif::exact_calls() as i64)),
            ("exact_predicate_calls_attributed_to_states", J::Int(self.exact_calls as i64)),
            ("exact_path_states", J::Int(self.exact_states as i64)),
            ("families", J::Arr(self.families.clone())),
            (
                "known_findings_matched",
                J::Obj(matched.iter().map(|(k, v)| (k.clone(), J::Int(v.0 as i64))).collect()),
            ),
            ("counters", J::Obj(self.counters.iter().map(|(k, v)| (k.clone(), J::Int(*v as i64))).collect())),
            ("violations_detail", J::Arr(vio_json)),
        ];
        if let Ok(l) = std::env::var("VERIF_C05_DBG_LINE") {
            cov.push(("debug_assertions_build_run", J::s(l)));
        }
        for (k, v) in self.extra.drain(..) {
            cov.push((Box::leak(k.into_boxed_str()), v));
        }
        let ev = J::obj(vec![
            ("property_id", J::s(self.property.clone())),
            ("tier", J::s(self.tier.clone())),
            ("seed", J::Int(self.seed as i64)),
            ("level", J::s("model_checking")),
            ("coverage", J::obj(cov)),
            ("assumptions", J::Arr(self.assumptions.iter().map(|b| J::s(b.clone())).collect())),
            ("wall_s", J::Num(wall)),
            ("violations", J::Int(nvio as i64)),
        ]);
        let _ = std::fs::create_dir_all(format!("{}/evidence", verif_dir()));
        let path = std::env::var("VERIF_EVIDENCE_PATH").unwrap_or_else(|_| format!("{}/evidence/{}.json", verif_dir(), self.property));
        if let Err(e) = std::fs::write(&path, ev.render()) {
            eprintln!("MACHINERY: cannot write {}: {}", path, e);
            return 2;
        }
        println!(
            "{} {}: states={} transitions={} impl_runs={} distinct_outcomes={} nontrivial={} exact_calls={} known={} violations={} wall={:.1}s",
            self.property,
            self.tier,
            self.states,
            self.transitions,
            self.impl_runs,
            self.all_sigs.len(),
            self.nontrivial_sigs.len(),
            self.exact_calls,
            matched.values().map(|v| v.0).sum::<u64>(),
            nvio,
            wall
        );
        if nvio > 0 {
            1
        } else {
            0
        }
    }
}


/// Watchdog: a library call that never returns (endless loop, runaway allocation) must become a verdict about the input
/// it was given, not a check that hangs or is killed. Every evaluation registers the item it works on; a monitor thread
/// looks at the wall time of the items in flight and at the resident memory of the process. When a limit is passed it
/// writes the descriptions of the items in flight to a replay file, prints a VIOLATION line and a minimal evidence file,
/// and ends the process with exit code 1. Limits are far above anything the unchanged tree needs (quick: 240 s per item,
/// 8 GiB; thorough: 3600 s, 24 GiB).
pub mod watchdog {
    use std::sync::atomic::{AtomicBool, AtomicUsize, Ordering};
    use std::sync::Mutex;
    use std::time::Instant;

    const SLOTS: usize = 256;
    static NEXT: AtomicUsize = AtomicUsize::new(0);
    #[allow(clippy::declare_interior_mutable_const)]
    const EMPTY: Mutex<Option<(Instant, usize)>> = Mutex::new(None);
    static INFLIGHT: [Mutex<Option<(Instant, usize)>>; SLOTS] = [EMPTY; SLOTS];
    static STARTED: AtomicBool = AtomicBool::new(false);
    struct Ptr(*const (dyn Fn(usize) -> String + Sync));
    unsafe impl Send for Ptr {}
    static DESCRIBER: Mutex<Option<(Ptr, String, String)>> = Mutex::new(None);

    thread_local! {
        static MY_SLOT: usize = NEXT.fetch_add(1, Ordering::Relaxed) % SLOTS;
    }

    pub fn enter(item: usize) -> usize {
        let slot = MY_SLOT.with(|s| *s);
        *INFLIGHT[slot].lock().unwrap() = Some((Instant::now(), item));
        slot
    }

    pub fn exit(slot: usize) {
        *INFLIGHT[slot].lock().unwrap() = None;
    }

    pub struct Describer;

    impl Describer {
        /// Valid until the returned guard is dropped (the guard is dropped before the borrowed closure goes away).
        pub fn install(d: &(dyn Fn(usize) -> String + Sync), property: &str, tier: &str) -> Describer {
            let p: *const (dyn Fn(usize) -> String + Sync) = unsafe { std::mem::transmute(d) };
            *DESCRIBER.lock().unwrap() = Some((Ptr(p), property.to_string(), tier.to_string()));
            if !STARTED.swap(true, Ordering::SeqCst) {
                std::thread::spawn(monitor);
            }
            Describer
        }
    }

    impl Drop for Describer {
        fn drop(&mut self) {
            // wait for a monitor that is in the middle of describing, then retire the pointer
            *DESCRIBER.lock().unwrap() = None;
        }
    }

    fn rss_bytes() -> u64 {
        std::fs::read_to_string("/proc/self/statm").ok().and_then(|s| s.split_whitespace().nth(1).and_then(|x| x.parse::<u64>().ok())).map_or(0, |pages| pages * 4096)
    }

    fn monitor() {
        loop {
            std::thread::sleep(std::time::Duration::from_millis(100));
            let g = DESCRIBER.lock().unwrap();
            let Some((ptr, property, tier)) = g.as_ref() else { continue };
            let thorough = tier == "thorough";
            let (tmax, mmax) = if thorough { (3600.0, 24u64 << 30) } else { (240.0, 8u64 << 30) };
            let mut flying: Vec<(f64, usize)> = vec![];
            for s in INFLIGHT.iter() {
                if let Some((t, i)) = *s.lock().unwrap() {
                    flying.push((t.elapsed().as_secs_f64(), i));
                }
            }
            flying.sort_by(|a, b| b.0.partial_cmp(&a.0).unwrap());
            let rss = rss_bytes();
            let why = if flying.first().map_or(false, |f| f.0 > tmax) {
                format!("an evaluation has not returned after {:.0} s", flying[0].0)
            } else if rss > mmax {
                format!("the process holds {:.1} GiB of memory while these inputs are being evaluated", rss as f64 / (1u64 << 30) as f64)
            } else {
                continue;
            };
            // describe the items in flight (the closure is alive: the guard cannot be dropped while we hold the lock)
            let d: &(dyn Fn(usize) -> String + Sync) = unsafe { &*ptr.0 };
            let culprits: Vec<(f64, usize)> = if why.starts_with("an evaluation") { flying.iter().copied().filter(|f| f.0 > tmax).collect() } else { flying.clone() };
            let mut text = format!("check=watchdog\nproperty={}\ntier={}\nreason={}\n", property, tier, why);
            for (age, i) in &culprits {
                text.push_str(&format!("in_flight_for_s={:.1}\nitem={}\n", age, d(*i).replace('\n', " ")));
            }
            let dir = format!("{}/replays", super::verif_dir());
            let _ = std::fs::create_dir_all(&dir);
            let path = format!("{}/{}-watchdog.replay", dir, property);
            let _ = std::fs::write(&path, &text);
            println!("VIOLATION property={} replay={}", property, path);
            println!("  clause=library-call-does-not-return case={} input(s) in flight: {}", culprits.len(), why);
            let first = culprits.first().map(|c| d(c.1).replace('\n', " ")).unwrap_or_default();
            let esc = |s: &str| s.replace('\\', "\\\\").replace('"', "\\\"");
            let ev = format!(
                "{{\"property_id\":\"{}\",\"tier\":\"{}\",\"seed\":0,\"level\":\"model_checking\",\"coverage\":{{\"states\":0,\"transitions\":0,\"traces_validated_against_impl\":0,\"samples\":[\"{}\"],\"exhaustive\":false,\"rule\":\"the exploration was stopped by the watchdog: {}\",\"violations_detail\":[{{\"clause\":\"library-call-does-not-return\",\"case\":\"{} input(s) in flight\",\"detail\":\"{}\",\"replay\":\"{}\"}}]}},\"assumptions\":[\"limits: {} s per evaluation, {} GiB resident\"],\"wall_s\":0,\"violations\":1}}",
                property, tier, esc(&first.chars().take(300).collect::<String>()), esc(&why), culprits.len(), esc(&why), esc(&path), tmax, mmax >> 30
            );
            let evp = std::env::var("VERIF_EVIDENCE_PATH").unwrap_or_else(|_| format!("{}/evidence/{}.json", super::verif_dir(), property));
            let _ = std::fs::write(evp, ev);
            use std::io::Write;
            let _ = std::io::stdout().flush();
            std::process::exit(1);
        }
    }
}
