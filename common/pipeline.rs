// Shared by the schedule explorer (rayon shim), the sequential build and the real-rayon conformance
// runs: the pipeline under test and a byte-exact, sectioned digest of everything it returns.

use glam::DVec3;
use meshless_voronoi::integrals::{AreaCentroidIntegral, AreaIntegral, CellIntegral, CellIntegralWithData, FaceIntegral, FaceIntegralWithData, VolumeCentroidIntegral, VolumeIntegral};
use meshless_voronoi::{ConvexCell, ConvexCellMarker, Dimensionality, Voronoi, VoronoiIntegrator};

#[derive(Clone, Debug)]
pub struct PInput {
    pub name: &'static str,
    pub dim: usize,
    pub periodic: bool,
    pub anchor: DVec3,
    pub width: DVec3,
    pub gens: Vec<DVec3>,
    pub mask: Option<Vec<bool>>,
    /// false: used only as an element of call histories (not explored schedule by schedule)
    pub explore: bool,
}

fn dimn(d: usize) -> Dimensionality {
    match d {
        1 => Dimensionality::OneD,
        2 => Dimensionality::TwoD,
        _ => Dimensionality::ThreeD,
    }
}

pub fn pipeline_inputs() -> Vec<PInput> {
    let v = |x: f64, y: f64, z: f64| DVec3::new(x, y, z);
    let mut inputs = vec![
        PInput {
            name: "3D n=4 mask=1011 generic",
            dim: 3,
            periodic: false,
            anchor: v(0., 0., 0.),
            width: v(1., 1., 1.),
            gens: vec![v(0.137, 0.291, 0.618), v(0.803, 0.127, 0.344), v(0.412, 0.733, 0.129), v(0.659, 0.581, 0.867)],
            mask: Some(vec![true, false, true, true]),
            explore: true,
        },
        PInput {
            name: "2D periodic n=3",
            dim: 2,
            periodic: true,
            anchor: v(-3., 10., 7.7),
            width: v(4., 1., 3.3),
            gens: vec![v(-2.5, 10.25, 1e300), v(-0.5, 10.5, -3.3), v(0.75, 10.875, 7.7)],
            mask: None,
            explore: true,
        },
        PInput {
            name: "1D n=4",
            dim: 1,
            periodic: false,
            anchor: v(1000., 7.7, -1e300),
            width: v(1., 1e300, 3.3),
            gens: vec![v(1000.125, 1., 2.), v(1000.5, 3., 4.), v(1000.625, 5., 6.), v(1000.875, 7., 8.)],
            mask: Some(vec![true, true, false, true]),
            explore: true,
        },
        PInput {
            name: "3D periodic n=2",
            dim: 3,
            periodic: true,
            anchor: v(0., 0., 0.),
            width: v(1., 2., 8.),
            gens: vec![v(0.25, 0.5, 1.), v(0.75, 1.5, 5.)],
            mask: None,
            explore: true,
        },
    ];
    // exact ties: 2x2x2 lattice (equidistant neighbours: order of equal candidates must not depend on the schedule)
    let mut g = vec![];
    for i in 0..2 {
        for j in 0..2 {
            for k in 0..2 {
                g.push(v(0.25 + 0.5 * i as f64, 0.25 + 0.5 * j as f64, 0.25 + 0.5 * k as f64));
            }
        }
    }
    inputs.push(PInput { name: "3D 2x2x2 lattice (ties)", dim: 3, periodic: false, anchor: v(0., 0., 0.), width: v(1., 1., 1.), gens: g, mask: None, explore: true });
    // 3x2x2 lattice, non-periodic, n = 12: ties + a size between typical 'small input' thresholds
    let mut g = vec![];
    for i in 0..3 {
        for j in 0..2 {
            for k in 0..2 {
                g.push(v((i as f64 + 0.5) / 3. * 1.5, 0.25 + 0.5 * j as f64, 0.25 + 0.5 * k as f64));
            }
        }
    }
    inputs.push(PInput { name: "3D 3x2x2 lattice n=12 (ties)", dim: 3, periodic: false, anchor: v(0., 0., 0.), width: v(1.5, 1., 1.), gens: g, mask: None, explore: true });
    // a larger state for the deviation-bounded exploration: 3x3x3 lattice with one generator displaced, masked
    let mut g = vec![];
    for i in 0..3 {
        for j in 0..3 {
            for k in 0..3 {
                g.push(v((i as f64 + 0.5) / 3., (j as f64 + 0.5) / 3., (k as f64 + 0.5) / 3.));
            }
        }
    }
    g[13] = v(0.52, 0.47, 0.51);
    let mask: Vec<bool> = (0..27).map(|i| i % 5 != 3).collect();
    inputs.push(PInput { name: "3D 3x3x3 perturbed lattice n=27 masked", dim: 3, periodic: true, anchor: v(0., 0., 0.), width: v(1., 1., 1.), gens: g, mask: Some(mask), explore: true });
    // one very large cell (a generator inside a jittered Fibonacci shell of 70: about 70 planes, >= 128 vertices): work inside
    // a single cell that a size threshold could move onto a nested parallel region
    let mut g = vec![v(0.5, 0.5, 0.5)];
    let mut lcg: u64 = 0x5eed_0046;
    let mut next = || {
        lcg = lcg.wrapping_mul(6364136223846793005).wrapping_add(1442695040888963407);
        (lcg >> 11) as f64 / (1u64 << 53) as f64
    };
    let m = 70;
    for k in 0..m {
        let z = 1. - 2. * (k as f64 + 0.5) / m as f64;
        let phi = k as f64 * 2.399963229728653 + 0.05 * next();
        let r = (1. - z * z).sqrt();
        let rad = 0.3 + 0.002 * next();
        g.push(v(0.5 + rad * r * phi.cos(), 0.5 + rad * r * phi.sin(), 0.5 + rad * z));
    }
    inputs.push(PInput { name: "3D shell of 70 around one generator (cell with >= 128 vertices)", dim: 3, periodic: false, anchor: v(0., 0., 0.), width: v(1., 1., 1.), gens: g, mask: None, explore: true });
    // a sparse mask: 2 of 20 cells constructed (a share below any "few active cells" threshold a fast path could use)
    let mut g = vec![];
    for i in 0..20 {
        let t = (i + 1) as f64;
        g.push(v((0.5 + 0.8191725 * t).fract(), (0.5 + 0.6710436 * t).fract(), (0.5 + 0.5497005 * t).fract()));
    }
    let mask: Vec<bool> = (0..20).map(|i| i == 4 || i == 13).collect();
    inputs.push(PInput { name: "3D n=20, 2 cells constructed (sparse mask)", dim: 3, periodic: false, anchor: v(0., 0., 0.), width: v(1., 1., 1.), gens: g, mask: Some(mask), explore: true });
    // history-only inputs: small configurations chosen to collide on anything a cache could be keyed by - the same
    // width in different dimensionalities, the same dimensionality with different widths, periodic and not, different
    // generator counts, an extreme length scale
    let unit = v(1., 1., 1.);
    let h = |name: &'static str, dim: usize, periodic: bool, anchor: DVec3, width: DVec3, gens: Vec<DVec3>| PInput { name, dim, periodic, anchor, width, gens, mask: None, explore: false };
    inputs.push(h("H 1D periodic unit n=2", 1, true, v(0., 0., 0.), unit, vec![v(0.2, 0., 0.), v(0.7, 0., 0.)]));
    inputs.push(h("H 2D periodic unit n=3", 2, true, v(0., 0., 0.), unit, vec![v(0.2, 0.3, 0.), v(0.7, 0.6, 0.), v(0.4, 0.9, 0.)]));
    inputs.push(h("H 3D periodic unit n=3", 3, true, v(0., 0., 0.), unit, vec![v(0.2, 0.3, 0.1), v(0.7, 0.6, 0.5), v(0.4, 0.9, 0.8)]));
    inputs.push(h("H 3D reflective unit n=3", 3, false, v(0., 0., 0.), unit, vec![v(0.2, 0.3, 0.1), v(0.7, 0.6, 0.5), v(0.4, 0.9, 0.8)]));
    inputs.push(h("H 2D reflective unit n=3", 2, false, v(0., 0., 0.), unit, vec![v(0.2, 0.3, 0.), v(0.7, 0.6, 0.), v(0.4, 0.9, 0.)]));
    inputs.push(h("H 1D reflective unit n=3", 1, false, v(0., 0., 0.), unit, vec![v(0.2, 0., 0.), v(0.7, 0., 0.), v(0.9, 0., 0.)]));
    inputs.push(h("H 3D periodic (2,1,1) n=2", 3, true, v(0., 0., 0.), v(2., 1., 1.), vec![v(0.5, 0.3, 0.1), v(1.5, 0.6, 0.5)]));
    inputs.push(h("H 2D periodic (2,1) n=2", 2, true, v(0., 0., 0.), v(2., 1., 1.), vec![v(0.5, 0.3, 0.), v(1.5, 0.6, 0.)]));
    inputs.push(h("H 3D periodic unit n=1", 3, true, v(0., 0., 0.), unit, vec![v(0.5, 0.5, 0.5)]));
    inputs.push(h("H 3D periodic 2^-30 n=3", 3, true, v(0., 0., 0.), unit * (2f64).powi(-30), vec![v(0.2, 0.3, 0.1) * (2f64).powi(-30), v(0.7, 0.6, 0.5) * (2f64).powi(-30), v(0.4, 0.9, 0.8) * (2f64).powi(-30)]));
    let mut g = vec![];
    for i in 0..12 {
        let t = (i + 1) as f64;
        g.push(v((0.5 + 0.8191725 * t).fract(), (0.5 + 0.6710436 * t).fract(), (0.5 + 0.5497005 * t).fract()));
    }
    inputs.push(h("H 3D reflective unit n=12", 3, false, v(0., 0., 0.), unit, g.clone()));
    inputs.push(h("H 3D periodic unit n=12", 3, true, v(0., 0., 0.), unit, g.clone()));
    // bitwise the same generator slice (unused coordinates included) under another dimensionality, and the same
    // positions in another order: whatever is remembered about "these generators" must include the dimensionality
    // and the order (indices)
    inputs.push(h("H 2D reflective unit, the slice of the 3D n=12 input", 2, false, v(0., 0., 0.), unit, g.clone()));
    inputs.push(h("H 2D periodic unit, the slice of the 3D n=12 input", 2, true, v(0., 0., 0.), unit, g.clone()));
    inputs.push(h("H 1D reflective unit, the slice of the 3D n=12 input", 1, false, v(0., 0., 0.), unit, g.clone()));
    let mut gr = g.clone();
    gr.reverse();
    inputs.push(h("H 3D reflective unit n=12, reversed order", 3, false, v(0., 0., 0.), unit, gr));
    let mut gs = g.clone();
    gs.swap(3, 8);
    inputs.push(h("H 3D reflective unit n=12, generators 3 and 8 swapped", 3, false, v(0., 0., 0.), unit, gs.clone()));
    inputs.push(h("H 3D periodic unit n=12, generators 3 and 8 swapped", 3, true, v(0., 0., 0.), unit, gs));
    // masked builds of the same positions before and after two generators swap slots (the mask stays with the slots)
    let hm: Vec<bool> = (0..12).map(|i| i % 3 != 1).collect();
    inputs.push(PInput { name: "H 3D reflective unit n=12, mask 101101...", dim: 3, periodic: false, anchor: v(0., 0., 0.), width: unit, gens: g.clone(), mask: Some(hm.clone()), explore: false });
    let mut gs2 = g.clone();
    gs2.swap(3, 8);
    inputs.push(PInput { name: "H 3D reflective unit n=12, generators 3 and 8 swapped, mask 101101...", dim: 3, periodic: false, anchor: v(0., 0., 0.), width: unit, gens: gs2, mask: Some(hm), explore: false });
    let mut gm = g.clone();
    gm[5] = v(0.31, 0.62, 0.47);
    inputs.push(h("H 3D reflective unit n=12, generator 5 moved", 3, false, v(0., 0., 0.), unit, gm));
    // the 2x2x2 lattice of the explored inputs (exact ties: the exact predicate is reached) in a larger, shifted box:
    // same generator indices and positions, different integer grid
    let mut g = vec![];
    for i in 0..2 {
        for j in 0..2 {
            for k in 0..2 {
                g.push(v(0.25 + 0.5 * i as f64, 0.25 + 0.5 * j as f64, 0.25 + 0.5 * k as f64));
            }
        }
    }
    // the same number of generators, again with exact ties, at other positions / in another order (whatever a worker
    // keeps per generator *index* between builds is about other positions now)
    let gshift: Vec<DVec3> = g.iter().map(|p| *p + v(1. / 16., -1. / 16., 1. / 32.)).collect();
    inputs.push(h("H 3D 2x2x2 lattice shifted by (1/16,-1/16,1/32)", 3, false, v(0., 0., 0.), unit, gshift));
    let mut grev = g.clone();
    grev.reverse();
    inputs.push(h("H 3D 2x2x2 lattice, reversed order", 3, false, v(0., 0., 0.), unit, grev));
    inputs.push(h("H 3D 2x2x2 lattice in the box [-1,2]^3", 3, false, v(-1., -1., -1.), v(3., 3., 3.), g.clone()));
    inputs.push(h("H 3D 2x2x2 lattice in the periodic box [0,1]^3", 3, true, v(0., 0., 0.), unit, g.clone()));
    // a single constructed cell (the same index and position, exact ties) in two different boxes: whatever a worker
    // remembers about "the last cell" is about this very cell
    let only0: Vec<bool> = (0..8).map(|i| i == 0).collect();
    inputs.push(PInput { name: "H 3D 2x2x2 lattice, only cell 0, box [0,1]^3", dim: 3, periodic: false, anchor: v(0., 0., 0.), width: unit, gens: g.clone(), mask: Some(only0.clone()), explore: false });
    inputs.push(PInput { name: "H 3D 2x2x2 lattice, only cell 0, box [-1,2]^3", dim: 3, periodic: false, anchor: v(-1., -1., -1.), width: v(3., 3., 3.), gens: g.clone(), mask: Some(only0.clone()), explore: false });
    inputs.push(PInput { name: "H 3D 2x2x2 lattice, only cell 0, periodic box [0,1]^3", dim: 3, periodic: true, anchor: v(0., 0., 0.), width: unit, gens: g.clone(), mask: Some(only0.clone()), explore: false });
    // ... and in boxes slid by a small amount (the integer grid moves by a few units only)
    inputs.push(PInput { name: "H 3D 2x2x2 lattice, only cell 0, box slid by (-1/64, 0, 0)", dim: 3, periodic: false, anchor: v(-1. / 64., 0., 0.), width: unit, gens: g.clone(), mask: Some(only0.clone()), explore: false });
    inputs.push(PInput { name: "H 3D 2x2x2 lattice, only cell 0, periodic box slid by (-0.01, 0.003, 0)", dim: 3, periodic: true, anchor: v(-0.01, 0.003, 0.), width: unit, gens: g, mask: Some(only0), explore: false });
    let mut g4 = vec![];
    for i in 0..4 {
        for j in 0..4 {
            g4.push(v((i as f64 + 0.5) / 4., (j as f64 + 0.5) / 4., 0.));
        }
    }
    let only5: Vec<bool> = (0..16).map(|i| i == 5).collect();
    inputs.push(PInput { name: "H 2D 4x4 lattice, only cell 5, periodic unit box", dim: 2, periodic: true, anchor: v(0., 0., 0.), width: unit, gens: g4.clone(), mask: Some(only5.clone()), explore: false });
    inputs.push(PInput { name: "H 2D 4x4 lattice, only cell 5, periodic box slid by (-0.01, 0, 0)", dim: 2, periodic: true, anchor: v(-0.01, 0., 0.), width: unit, gens: g4, mask: Some(only5), explore: false });
    // big inputs (generator / face counts of ordinary use, beyond any "large mesh" threshold a parallel fast path could
    // have): explored with the coarse partition alphabet of the executor (cuts only at a menu of positions), one
    // deviation; not part of the all-pairs call histories (see `is_big`)
    let kron = |n: usize, dim: usize| -> Vec<DVec3> {
        (0..n)
            .map(|i| {
                let t = (i + 1) as f64;
                let f = v((0.5 + 0.819_172_513_396_164_4 * t).fract(), (0.5 + 0.671_043_606_703_789_2 * t).fract(), (0.5 + 0.549_700_477_901_970_2 * t).fract());
                let f = v(1. / 64., 1. / 64., 1. / 64.) + f * (1. - 1. / 32.);
                if dim == 2 {
                    v(f.x, f.y, 0.)
                } else {
                    f
                }
            })
            .collect()
    };
    inputs.push(PInput { name: "B 2D n=12000 uniform (more than 2^15 faces)", dim: 2, periodic: false, anchor: v(0., 0., 0.), width: unit, gens: kron(12000, 2), mask: None, explore: true });
    inputs.push(PInput { name: "B 3D periodic n=4500 uniform (more than 2^15 faces)", dim: 3, periodic: true, anchor: v(0., 0., 0.), width: unit, gens: kron(4500, 3), mask: None, explore: true });
    let bm: Vec<bool> = (0..3000).map(|i| i % 16 == 3).collect();
    inputs.push(PInput { name: "B 3D n=3000, every 16th cell constructed", dim: 3, periodic: false, anchor: v(0., 0., 0.), width: unit, gens: kron(3000, 3), mask: Some(bm), explore: true });
    inputs
}

/// Big inputs are explored with the coarse partition alphabet and are left out of the all-pairs call histories.
pub fn is_big(inp: &PInput) -> bool {
    inp.gens.len() > 1000
}

#[derive(Default)]
pub struct Digest {
    pub sections: Vec<(String, u64, usize)>,
    cur: u64,
    n: usize,
}

impl Digest {
    pub fn from_sections(sections: Vec<(String, u64, usize)>) -> Self {
        Digest { sections, cur: 0, n: 0 }
    }
    fn start(&mut self) {
        self.cur = 0xcbf29ce484222325;
        self.n = 0;
    }
    fn bytes(&mut self, b: &[u8]) {
        for &x in b {
            self.cur ^= x as u64;
            self.cur = self.cur.wrapping_mul(0x100000001b3);
        }
        self.n += b.len();
    }
    fn u(&mut self, v: u64) {
        self.bytes(&v.to_le_bytes());
    }
    fn f(&mut self, v: f64) {
        self.u(v.to_bits());
    }
    fn v3(&mut self, v: DVec3) {
        self.f(v.x);
        self.f(v.y);
        self.f(v.z);
    }
    fn ov3(&mut self, v: Option<DVec3>) {
        match v {
            None => self.u(0),
            Some(v) => {
                self.u(1);
                self.v3(v)
            }
        }
    }
    fn end(&mut self, name: &str) {
        self.sections.push((name.to_string(), self.cur, self.n));
    }
    pub fn total(&self) -> u64 {
        let mut h = 0xcbf29ce484222325u64;
        for (_, s, n) in &self.sections {
            for b in s.to_le_bytes().iter().chain((*n as u64).to_le_bytes().iter()) {
                h ^= *b as u64;
                h = h.wrapping_mul(0x100000001b3);
            }
        }
        h
    }
    pub fn first_difference(&self, other: &Digest) -> Option<String> {
        if self.sections.len() != other.sections.len() {
            return Some(format!("{} vs {} sections", self.sections.len(), other.sections.len()));
        }
        for (a, b) in self.sections.iter().zip(other.sections.iter()) {
            if a != b {
                return Some(format!("section '{}': {:016x}/{} bytes vs '{}': {:016x}/{} bytes", a.0, a.1, a.2, b.0, b.1, b.2));
            }
        }
        None
    }
}

fn voronoi_section(d: &mut Digest, name: &str, v: &Voronoi) {
    d.start();
    d.v3(v.anchor());
    d.v3(v.width());
    d.u(v.dimensionality() as u64);
    d.u(v.periodic() as u64);
    for c in v.cells() {
        d.v3(c.loc());
        d.v3(c.centroid());
        d.f(c.volume());
        d.f(c.safety_radius());
        d.u(c.face_connections_offset() as u64);
        d.u(c.face_count() as u64);
    }
    for f in v.faces() {
        d.u(f.left() as u64);
        d.u(f.right().map_or(u64::MAX, |r| r as u64));
        d.ov3(f.shift());
        d.f(f.area());
        d.v3(f.centroid());
        d.v3(f.normal());
    }
    for c in v.cell_face_connections() {
        d.u(*c as u64);
    }
    // what the cells answer through their accessors (they depend on the index a cell stores about itself)
    for c in v.cells() {
        for j in c.neighbour_ids(v) {
            d.u(j as u64);
        }
        d.u(u64::MAX);
        for j in c.face_indices(v) {
            d.u(*j as u64);
        }
        d.u(u64::MAX - 1);
    }
    d.end(name);
}

fn cells_section<M: ConvexCellMarker + 'static>(d: &mut Digest, name: &str, integ: &VoronoiIntegrator<M>, n: usize) {
    d.start();
    for i in 0..n {
        match integ.get_cell_at(i) {
            None => d.u(0),
            Some(c) => {
                d.u(1);
                d.u(c.idx as u64);
                d.v3(c.loc);
                for p in &c.clipping_planes {
                    d.v3(p.plane.n);
                    d.v3(p.plane.p);
                    d.u(p.right_idx.map_or(u64::MAX, |r| r as u64));
                    d.ov3(p.shift);
                }
                for vtx in &c.vertices {
                    d.v3(vtx.loc);
                    for k in vtx.dual {
                        d.u(k as u64);
                    }
                }
            }
        }
    }
    d.end(name);
}

/// A downstream integral whose result depends on the order in which tetrahedra are fed (so that a
/// schedule-dependent decomposition order would show).
#[derive(Clone, Default)]
pub struct OrderSensitive {
    pub acc: f64,
    pub k: u64,
}

impl CellIntegral for OrderSensitive {
    fn init<M: ConvexCellMarker>(_cell: &ConvexCell<M>) -> Self {
        Self::default()
    }
    fn collect(&mut self, v0: DVec3, v1: DVec3, v2: DVec3, gen: DVec3) {
        self.k += 1;
        self.acc = self.acc * 1.0000001 + (v0.x + 2. * v1.y + 3. * v2.z + gen.x) * self.k as f64;
    }
    fn finalize(self) -> Self {
        self
    }
}

impl FaceIntegral for OrderSensitive {
    fn init<M: ConvexCellMarker>(_cell: &ConvexCell<M>, _clipping_plane_idx: usize) -> Self {
        Self::default()
    }
    fn collect(&mut self, v0: DVec3, v1: DVec3, v2: DVec3, gen: DVec3) {
        self.k += 1;
        self.acc = self.acc * 1.0000001 + (v0.x + 2. * v1.y + 3. * v2.z + gen.x) * self.k as f64;
    }
    fn finalize(self) -> Self {
        self
    }
}

/// The same downstream integral carrying a per-cell datum (a function of the generator index): the result depends
/// on which datum reached which cell.
#[derive(Clone, Default)]
pub struct WithDatum {
    pub inner: OrderSensitive,
    pub datum: u64,
    pub idx: usize,
}

impl CellIntegralWithData for WithDatum {
    type Data = u64;
    fn init_with_data<M: ConvexCellMarker>(cell: &ConvexCell<M>, data: u64) -> Self {
        WithDatum { inner: OrderSensitive { acc: data as f64, k: 0 }, datum: data, idx: cell.idx }
    }
    fn collect(&mut self, v0: DVec3, v1: DVec3, v2: DVec3, gen: DVec3) {
        CellIntegral::collect(&mut self.inner, v0, v1, v2, gen)
    }
    fn finalize(self) -> Self {
        self
    }
}

impl FaceIntegralWithData for WithDatum {
    type Data = u64;
    fn init_with_data<M: ConvexCellMarker>(cell: &ConvexCell<M>, _clipping_plane_idx: usize, data: u64) -> Self {
        WithDatum { inner: OrderSensitive { acc: data as f64, k: 0 }, datum: data, idx: cell.idx }
    }
    fn collect(&mut self, v0: DVec3, v1: DVec3, v2: DVec3, gen: DVec3) {
        FaceIntegral::collect(&mut self.inner, v0, v1, v2, gen)
    }
    fn finalize(self) -> Self {
        self
    }
}

fn integrals_sections<M: ConvexCellMarker + 'static>(d: &mut Digest, tag: &str, integ: &VoronoiIntegrator<M>, n: usize) {
    d.start();
    for c in integ.compute_cell_integrals::<VolumeCentroidIntegral>() {
        d.f(c.volume);
        d.v3(c.centroid);
    }
    d.end(&format!("{}: compute_cell_integrals<VolumeCentroid>", tag));
    d.start();
    for c in integ.compute_cell_integrals::<VolumeIntegral>() {
        d.f(c.volume);
    }
    d.end(&format!("{}: compute_cell_integrals<Volume>", tag));
    d.start();
    for c in integ.compute_cell_integrals::<OrderSensitive>() {
        d.f(c.acc);
        d.u(c.k);
    }
    d.end(&format!("{}: compute_cell_integrals<downstream>", tag));
    let data: Vec<u64> = (0..n as u64).map(|i| 1000 + 17 * i).collect();
    d.start();
    for c in integ.compute_cell_integrals_with_data::<u64, WithDatum>(&data) {
        d.f(c.inner.acc);
        d.u(c.inner.k);
        d.u(c.datum);
        d.u(c.idx as u64);
    }
    d.end(&format!("{}: compute_cell_integrals_with_data", tag));
    d.start();
    for f in integ.compute_face_integrals::<AreaCentroidIntegral>() {
        d.u(f.left() as u64);
        d.u(f.right().map_or(u64::MAX, |r| r as u64));
        d.ov3(f.shift());
        d.f(f.integral().area);
        d.v3(f.integral().centroid);
    }
    d.end(&format!("{}: compute_face_integrals<AreaCentroid>", tag));
    d.start();
    for f in integ.compute_face_integrals_sym::<AreaIntegral>() {
        d.u(f.left() as u64);
        d.u(f.right().map_or(u64::MAX, |r| r as u64));
        d.ov3(f.shift());
        d.f(f.integral().area);
    }
    d.end(&format!("{}: compute_face_integrals_sym<Area>", tag));
    d.start();
    for f in integ.compute_face_integrals_with_data::<u64, WithDatum>(&data) {
        d.u(f.left() as u64);
        d.f(f.integral().inner.acc);
        d.u(f.integral().datum);
    }
    d.end(&format!("{}: compute_face_integrals_with_data", tag));
    d.start();
    for f in integ.compute_face_integrals_sym_with_data::<u64, WithDatum>(&data) {
        d.u(f.left() as u64);
        d.f(f.integral().inner.acc);
        d.u(f.integral().datum);
    }
    d.end(&format!("{}: compute_face_integrals_sym_with_data", tag));
}

/// The pipeline: every parallel entry point of the public API, on one input.
pub fn run_pipeline(inp: &PInput) -> Digest {
    let mut d = Digest::default();
    let dm = dimn(inp.dim);
    let n = inp.gens.len();
    let direct = match &inp.mask {
        None => Voronoi::build(&inp.gens, inp.anchor, inp.width, dm, inp.periodic),
        Some(m) => Voronoi::build_partial(&inp.gens, m, inp.anchor, inp.width, dm, inp.periodic),
    };
    voronoi_section(&mut d, "Voronoi::build[_partial]", &direct);
    let integ = VoronoiIntegrator::build(&inp.gens, inp.mask.as_deref(), inp.anchor, inp.width, dm, inp.periodic);
    cells_section(&mut d, "VoronoiIntegrator::build", &integ, n);
    integrals_sections(&mut d, "without faces", &integ, n);
    let conv = Voronoi::from(&integ);
    voronoi_section(&mut d, "Voronoi::from(&VoronoiIntegrator)", &conv);
    if inp.dim == 3 {
        let wf = integ.clone().with_faces();
        d.start();
        for i in 0..n {
            if let Some(c) = wf.get_cell_at(i) {
                d.u(c.face_count() as u64);
                for f in 0..c.face_count() {
                    d.u(c.neighbour(f).map_or(u64::MAX, |r| r as u64));
                    for vtx in c.face_vertices(f) {
                        d.u(*vtx as u64);
                    }
                }
            }
        }
        d.end("with_faces: face polygons");
        integrals_sections(&mut d, "with faces", &wf, n);
        let conv2 = Voronoi::from(&wf);
        voronoi_section(&mut d, "Voronoi::from(&VoronoiIntegrator<WithFaces>)", &conv2);
    }
    // a second full build: hidden state left behind by the first one would show here
    let again = match &inp.mask {
        None => Voronoi::build(&inp.gens, inp.anchor, inp.width, dm, inp.periodic),
        Some(m) => Voronoi::build_partial(&inp.gens, m, inp.anchor, inp.width, dm, inp.periodic),
    };
    voronoi_section(&mut d, "Voronoi::build[_partial] (second call)", &again);
    d
}
