//! C10 (exact in-sphere predicate returns the true sign; grid map) and C11 (back ends agree).

use crate::alpha::*;
use crate::bigint::*;
use crate::checks::c05;
use crate::report::*;
use crate::tess::*;
use crate::util::*;
use glam::DVec3;
use meshless_voronoi::verif::{in_sphere_exact, Boundary, ClipCell};
use meshless_voronoi::Dimensionality;
use rayon::prelude::*;

type P = [i64; 3];

pub fn grid_points(m: i64) -> Vec<P> {
    grid_points3([m, m, m])
}

/// The quick grid {0,1,2} x {0,1} x {0,1}: the 8 corners of a cube are co-spherical, so the 2^3 grid has
/// only zero determinants; this one has all three signs.
pub const QUICK_GRID: [i64; 3] = [3, 2, 2];

pub fn grid_points3(m: [i64; 3]) -> Vec<P> {
    let mut v = vec![];
    for x in 0..m[0] {
        for y in 0..m[1] {
            for z in 0..m[2] {
                v.push([x, y, z]);
            }
        }
    }
    v
}

fn lib_sign(a: P, b: P, c: P, d: P, v: P) -> i32 {
    let r = in_sphere_exact(a, b, c, d, v);
    if r < 0. {
        -1
    } else if r > 0. {
        1
    } else if r == 0. {
        0
    } else {
        99
    }
}

/// Geometric meaning on a small grid: returns (orientation sign, position of v relative to the
/// circumsphere: -1 inside, 0 on, 1 outside), None if the tetrahedron is degenerate.
fn geometric(a: P, b: P, c: P, d: P, v: P) -> Option<(i32, i32)> {
    let df = |p: P| [(p[0] - a[0]) as i128, (p[1] - a[1]) as i128, (p[2] - a[2]) as i128];
    let (b, c, d, v) = (df(b), df(c), df(d), df(v));
    let det3 = |r0: [i128; 3], r1: [i128; 3], r2: [i128; 3]| -> i128 {
        r0[0] * (r1[1] * r2[2] - r1[2] * r2[1]) - r0[1] * (r1[0] * r2[2] - r1[2] * r2[0]) + r0[2] * (r1[0] * r2[1] - r1[1] * r2[0])
    };
    let dd = det3(b, c, d);
    if dd == 0 {
        return None;
    }
    // circumcentre o (relative to a): 2 M o = (|b|^2, |c|^2, |d|^2) with rows b, c, d  => o = N / (2 D)
    let n2 = |p: [i128; 3]| p[0] * p[0] + p[1] * p[1] + p[2] * p[2];
    let rhs = [n2(b), n2(c), n2(d)];
    let col = |k: usize| -> i128 {
        let rep = |r: [i128; 3], val: i128| {
            let mut r = r;
            r[k] = val;
            r
        };
        det3(rep(b, rhs[0]), rep(c, rhs[1]), rep(d, rhs[2]))
    };
    let n = [col(0), col(1), col(2)];
    // |2D v - N|^2 vs |N|^2
    let w = [2 * dd * v[0] - n[0], 2 * dd * v[1] - n[1], 2 * dd * v[2] - n[2]];
    let lhs = n2(w);
    let r2 = n2(n);
    Some((dd.signum() as i32, (lhs - r2).signum() as i32))
}

#[derive(Clone, Debug)]
pub struct Embedding {
    pub name: String,
    pub scale: i64,
    pub translate: P,
    pub perm: [usize; 3],
    pub flip: [bool; 3],
}

impl Embedding {
    pub fn apply(&self, p: P, m: [i64; 3]) -> P {
        let mut q = [0i64; 3];
        for k in 0..3 {
            let c = p[self.perm[k]];
            let c = if self.flip[k] { (m[self.perm[k]] - 1) - c } else { c };
            q[k] = self.translate[k] + self.scale * c;
        }
        q
    }
    /// Parity of the map as an orientation change of space (scalings and translations keep the sign;
    /// the in-sphere determinant changes sign under an orientation reversing map).
    pub fn parity(&self) -> i32 {
        let mut s = 1;
        // permutation parity
        let p = self.perm;
        let inv = (p[0] > p[1]) as i32 + (p[0] > p[2]) as i32 + (p[1] > p[2]) as i32;
        if inv % 2 == 1 {
            s = -s;
        }
        for f in self.flip {
            if f {
                s = -s;
            }
        }
        s
    }
}

const TOP: i64 = (1i64 << 52) - 1;

pub fn embeddings(m: i64, thorough: bool) -> Vec<Embedding> {
    let mut v = vec![];
    let scales: Vec<(String, i64)> = vec![
        ("1".into(), 1),
        ("2^10".into(), 1 << 10),
        ("2^25".into(), 1 << 25),
        ("3^30".into(), 205891132094649),
        ("2^49-1".into(), (1 << 49) - 1),
        ("0x5555555555555".into(), 0x5555555555555),
        ("2^50".into(), 1 << 50),
    ];
    let perms: Vec<[usize; 3]> = vec![[0, 1, 2], [1, 0, 2], [2, 1, 0], [0, 2, 1], [1, 2, 0], [2, 0, 1]];
    for (sn, s) in &scales {
        let span = s * (m - 1);
        if span > TOP {
            continue;
        }
        let translations: Vec<(String, P)> = vec![
            ("origin".into(), [0, 0, 0]),
            ("top".into(), [TOP - span, TOP - span, TOP - span]),
            ("centre".into(), [(TOP - span) / 2, (TOP - span) / 2 + 1, (TOP - span) / 2 - 1]),
            ("mixed".into(), [0, TOP - span, (TOP - span) / 3]),
        ];
        for (tn, t) in &translations {
            for (pi, perm) in perms.iter().enumerate() {
                for fl in 0..8u8 {
                    // quick: all perms x flips only for two scales; otherwise identity + one reversing map
                    let full = thorough || *s == 1 || *s == (1 << 49) - 1;
                    if !full && !((pi == 0 && fl == 0) || (pi == 1 && fl == 5)) {
                        continue;
                    }
                    if !thorough && tn != "origin" && tn != "top" && !(pi == 0 && fl == 0) {
                        continue;
                    }
                    v.push(Embedding {
                        name: format!("scale={} translate={} perm={:?} flip={:03b}", sn, tn, perm, fl),
                        scale: *s,
                        translate: *t,
                        perm: *perm,
                        flip: [fl & 1 != 0, fl & 2 != 0, fl & 4 != 0],
                    });
                }
            }
        }
    }
    v
}

fn tuple_replay(prop_check: &str, what: &str, pts: &[P]) -> String {
    let mut s = format!("check={}\nwhat={}\n", prop_check, what);
    for p in pts {
        s.push_str(&format!("point={},{},{}\n", p[0], p[1], p[2]));
    }
    s
}

pub fn replay_tuple(text: &str) -> i32 {
    let pts: Vec<P> = text
        .lines()
        .filter_map(|l| l.strip_prefix("point="))
        .filter_map(|l| {
            let v: Vec<i64> = l.split(',').filter_map(|x| x.trim().parse().ok()).collect();
            if v.len() == 3 {
                Some([v[0], v[1], v[2]])
            } else {
                None
            }
        })
        .collect();
    if pts.len() != 5 {
        eprintln!("replay needs 5 points");
        return 2;
    }
    let lib = guarded(|| lib_sign(pts[0], pts[1], pts[2], pts[3], pts[4]));
    let exp = in_sphere_det_sign(pts[0], pts[1], pts[2], pts[3], pts[4]);
    println!("points a,b,c,d,v = {:?}", pts);
    println!("library exact predicate: {:?}; 512-bit determinant sign: {}", lib, exp);
    match lib {
        Ok(l) if l == exp => {
            println!("NOT REPRODUCED: the predicate returns the true sign");
            0
        }
        _ => {
            println!("REPRODUCED");
            1
        }
    }
}

/// One block of the exhaustive table: fixed (a, b), all (c, d, v).
pub struct Block {
    pub m: [i64; 3],
    pub a: P,
    pub b: P,
}

pub fn eval_block(blk: &Block, embs: &[Embedding]) -> Eval {
    let mut e = Eval::default();
    let pts = grid_points3(blk.m);
    let (a, b) = (blk.a, blk.b);
    let mut h = Fnv::new();
    let mut nz = 0u64;
    for &c in &pts {
        for &d in &pts {
            for &v in &pts {
                let det = in_sphere_det_i128(a, b, c, d, v);
                let exp = det.signum() as i32;
                let case = format!("grid{:?} a={:?} b={:?} c={:?} d={:?} v={:?}", blk.m, a, b, c, d, v);
                let got = match guarded(|| lib_sign(a, b, c, d, v)) {
                    Ok(g) => g,
                    Err(p) => {
                        e.issue("panic-in-predicate", &case, p.msg, tuple_replay("c10", &case, &[a, b, c, d, v]));
                        continue;
                    }
                };
                e.impl_runs += 1;
                h.u64((got + 2) as u64);
                if got != exp {
                    e.issue("sign-vs-i128-determinant", &case, format!("library {} but determinant {} (sign {})", got, det, exp), tuple_replay("c10", &case, &[a, b, c, d, v]));
                }
                // O-int self check
                if in_sphere_det_sign(a, b, c, d, v) != exp {
                    e.issue("oracle-self-check", &case, "512-bit oracle disagrees with i128".to_string(), tuple_replay("c10", &case, &[a, b, c, d, v]));
                }
                // geometric meaning
                if let Some((orient, pos)) = geometric(a, b, c, d, v) {
                    e.transitions += 1;
                    // positively oriented (det(b-a,c-a,d-a) > 0): negative iff strictly inside, zero iff on
                    if got != orient * pos {
                        e.issue(
                            "sign-vs-geometric-meaning",
                            &case,
                            format!("orientation {} and v is {} the circumsphere, library returns {}", orient, ["inside", "on", "outside"][(pos + 1) as usize], got),
                            tuple_replay("c10", &case, &[a, b, c, d, v]),
                        );
                    }
                }
                if exp != 0 {
                    nz += 1;
                }
                // embeddings (only for a thinned subset of tuples when the grid is 3^3: those with c <= d lexicographically handled by caller)
                for em in embs {
                    let q: Vec<P> = [a, b, c, d, v].iter().map(|p| em.apply(*p, blk.m)).collect();
                    let want = exp * em.parity();
                    let g2 = match guarded(|| lib_sign(q[0], q[1], q[2], q[3], q[4])) {
                        Ok(g) => g,
                        Err(p) => {
                            e.issue("panic-in-predicate", format!("{} | {}", case, em.name), p.msg, tuple_replay("c10", &em.name, &q));
                            continue;
                        }
                    };
                    e.impl_runs += 1;
                    e.transitions += 1;
                    if g2 != want {
                        e.issue(
                            "sign-under-embedding",
                            format!("{} | {}", case, em.name),
                            format!("embedded tuple {:?}: library {} expected {} (small-grid sign {} x parity {})", q, g2, want, exp, em.parity()),
                            tuple_replay("c10", &em.name, &q),
                        );
                    }
                }
            }
        }
    }
    e.count("nonzero_determinants", nz);
    e.sig = h.finish();
    e.nontrivial = nz > 0;
    e
}

/// Adversarial family: co-spherical tuples, scaled, with v displaced by +-1 per coordinate; and
/// integer points on a large sphere.
pub fn eval_adversarial(idx: usize, thorough: bool) -> Eval {
    let mut e = Eval::default();
    let mut h = Fnv::new();
    let check_tuple = |e: &mut Eval, h: &mut Fnv, pts: [P; 5], what: &str| {
        for p in pts {
            for c in p {
                if !(0..=TOP).contains(&c) {
                    return;
                }
            }
        }
        let exp = in_sphere_det_sign(pts[0], pts[1], pts[2], pts[3], pts[4]);
        let case = format!("{} {:?}", what, pts);
        match guarded(|| lib_sign(pts[0], pts[1], pts[2], pts[3], pts[4])) {
            Ok(g) => {
                e.impl_runs += 1;
                h.u64((g + 2) as u64);
                if g != exp {
                    e.issue("sign-vs-512bit-determinant", &case, format!("library {} expected {}", g, exp), tuple_replay("c10", what, &pts));
                }
            }
            Err(p) => e.issue("panic-in-predicate", &case, p.msg, tuple_replay("c10", what, &pts)),
        }
    };
    if idx == 0 {
        // (i) every co-spherical tuple of the 2^3 grid (cube corners are co-spherical!) and of 3^3 (thorough), scaled
        let m = if thorough { 3 } else { 2 };
        let pts = grid_points(m);
        let scales: [i64; 4] = [1 << 20, (1 << 49) - 1, 205891132094649, 1 << 50];
        for &a in &pts {
            for &b in &pts {
                for &c in &pts {
                    for &d in &pts {
                        if orient_sign(a, b, c, d) == 0 {
                            continue;
                        }
                        for &v in &pts {
                            if in_sphere_det_i128(a, b, c, d, v) != 0 {
                                continue;
                            }
                            for s in scales {
                                if s * (m - 1) + 2 > TOP {
                                    continue;
                                }
                                let em = |p: P| [p[0] * s + 1, p[1] * s + 1, p[2] * s + 1];
                                let base = [em(a), em(b), em(c), em(d), em(v)];
                                check_tuple(&mut e, &mut h, base, "cospherical-scaled");
                                for ax in 0..3 {
                                    for dl in [-1i64, 1] {
                                        let mut t = base;
                                        t[4][ax] += dl;
                                        check_tuple(&mut e, &mut h, t, "cospherical-scaled v+-1");
                                        e.transitions += 1;
                                        // displace one of the sphere points instead
                                        let mut t2 = base;
                                        t2[2][ax] += dl;
                                        check_tuple(&mut e, &mut h, t2, "cospherical-scaled c+-1");
                                    }
                                }
                            }
                        }
                    }
                }
            }
        }
    } else {
        // (ii) integer points on large spheres: sign patterns / permutations of (x, y, z) about a centre
        let triples: [[i64; 3]; 3] = [[(1 << 50) - 3, (1 << 49) + 12345, (1 << 48) + 777], [1 << 50, 1 << 50, 1], [(1 << 50) + 1, 3, 5]];
        let centre: i64 = 1 << 51;
        let tr = triples[(idx - 1) % 3];
        let mut sph: Vec<P> = vec![];
        for perm in [[0, 1, 2], [1, 2, 0], [2, 0, 1], [0, 2, 1], [2, 1, 0], [1, 0, 2]] {
            for sg in 0..8u8 {
                let p = [
                    centre + if sg & 1 != 0 { -tr[perm[0]] } else { tr[perm[0]] },
                    centre + if sg & 2 != 0 { -tr[perm[1]] } else { tr[perm[1]] },
                    centre + if sg & 4 != 0 { -tr[perm[2]] } else { tr[perm[2]] },
                ];
                if !sph.contains(&p) {
                    sph.push(p);
                }
            }
        }
        let n = sph.len().min(if thorough { 20 } else { 12 });
        for ia in 0..n {
            for ib in (ia + 1)..n {
                for ic in (ib + 1)..n {
                    for id in (ic + 1)..n {
                        for iv in 0..sph.len().min(24) {
                            if [ia, ib, ic, id].contains(&iv) {
                                continue;
                            }
                            let base = [sph[ia], sph[ib], sph[ic], sph[id], sph[iv]];
                            check_tuple(&mut e, &mut h, base, "large-sphere");
                            for ax in 0..3 {
                                for dl in [-1i64, 1] {
                                    let mut t = base;
                                    t[4][ax] += dl;
                                    check_tuple(&mut e, &mut h, t, "large-sphere v+-1");
                                    e.transitions += 1;
                                }
                            }
                        }
                    }
                }
            }
        }
    }
    e.sig = h.finish();
    e.nontrivial = true;
    e
}

/// Orientation of the vertex duals of every reachable cell of a 3D state (on the iloc integers).
pub fn eval_dual_orientation(st: &State) -> Eval {
    let mut e = Eval::default();
    let gens = st.gens.clone();
    let mut h = Fnv::new();
    let mut degenerate = 0u64;
    for i in 0..st.n() {
        let seq = match guarded(|| meshless_voronoi::verif::nn_sequence(&gens, i, st.norm_width(), st.dimensionality(), st.periodic)) {
            Ok(s) => s,
            Err(_) => continue,
        };
        let r = guarded(|| {
            let mut bad: Vec<String> = vec![];
            let mut deg = 0u64;
            let mut checked = 0u64;
            let mut cc = ClipCell::init(&gens, i, st.norm_anchor(), st.norm_width(), st.dimensionality(), st.periodic);
            let check_all = |cc: &ClipCell, bad: &mut Vec<String>, deg: &mut u64, checked: &mut u64, stage: usize| {
                let a = cc.gen_iloc();
                for (vi, vert) in cc.cell.vertices.iter().enumerate() {
                    let b = cc.right_iloc(vert.dual[0]);
                    let c = cc.right_iloc(vert.dual[1]);
                    let d = cc.right_iloc(vert.dual[2]);
                    let o = orient_sign(a, b, c, d);
                    *checked += 1;
                    if o == 0 {
                        *deg += 1;
                    } else if o != 1 {
                        // positively oriented: det(b-a, c-a, d-a) > 0 (then the exact test is negative iff v is strictly inside)
                        bad.push(format!("cell {} after {} clips: vertex {} dual {:?} has orientation {}", i, stage, vi, vert.dual, o));
                    }
                }
            };
            check_all(&cc, &mut bad, &mut deg, &mut checked, 0);
            let mut stage = 0;
            for (j, shift) in seq.iter().skip(1) {
                if !cc.clip_by_neighbour(*j, *shift) {
                    break;
                }
                stage += 1;
                check_all(&cc, &mut bad, &mut deg, &mut checked, stage);
            }
            (bad, deg, checked)
        });
        match r {
            Ok((bad, deg, checked)) => {
                e.transitions += checked;
                e.impl_runs += 1;
                degenerate += deg;
                h.u64(checked);
                for b in bad {
                    e.issue("dual-orientation", &st.id, b, replay_text("c10-duals", st, &[]));
                }
            }
            Err(p) => panic_issue(&mut e, "c10-duals", st, &st.id, &[], &p, "clip-by-clip rebuild"),
        }
    }
    e.count("degenerate_dual_tetrahedra(wall through generator)", degenerate);
    e.sig = h.finish();
    e.nontrivial = true;
    e
}

/// Grid map: range, monotonicity, uniform scaling, for one (box, dim, periodic).
pub fn eval_grid_map(input: &(BoxSpec, usize, bool)) -> Eval {
    let (b, dim, periodic) = input;
    let mut e = Eval::default();
    let case = format!("{}|{}", dim_tag(*dim, *periodic), b.name);
    let mut anchor = b.anchor;
    let mut width = b.width;
    if *dim <= 1 {
        anchor.y = -0.5;
        width.y = 1.;
    }
    if *dim <= 2 {
        anchor.z = -0.5;
        width.z = 1.;
    }
    let dimn = dimensionality(*dim);
    let rp = || format!("check=c10-grid\nbox={}\ndim={}\nperiodic={}\n", b.name, dim, periodic);
    let bd = match guarded(|| Boundary::new(anchor, width, *periodic, dimn)) {
        Ok(b) => b,
        Err(p) => {
            e.issue("panic-in-grid-map", &case, p.msg, rp());
            return e;
        }
    };
    // every position the algorithm can query
    let m = 8;
    let mut positions: Vec<DVec3> = vec![];
    let r = |active: bool| if active { 0..=m } else { 0..=0 };
    for i in r(true) {
        for j in r(*dim >= 2) {
            for k in r(*dim >= 3) {
                let f = v3(i as f64, j as f64, k as f64) / m as f64;
                let mut g = anchor + f * width;
                if *dim <= 1 {
                    g.y = 0.;
                }
                if *dim <= 2 {
                    g.z = 0.;
                }
                positions.push(g);
            }
        }
    }
    let gens = positions.clone();
    let mut all: Vec<DVec3> = vec![];
    for g in &gens {
        all.push(*g);
        // mirror images through the six (tripled when periodic) walls
        for wi in 0..6 {
            match guarded(|| bd.wall_mirror(wi, *g)) {
                Ok(p) => all.push(p),
                Err(p) => e.issue("panic-in-grid-map", &case, p.msg, rp()),
            }
        }
        if *periodic {
            let rr = |active: bool| if active { -1..=1 } else { 0..=0 };
            for x in rr(true) {
                for y in rr(*dim >= 2) {
                    for z in rr(*dim >= 3) {
                        all.push(*g + v3(x as f64 * width.x, y as f64 * width.y, z as f64 * width.z));
                    }
                }
            }
        }
    }
    let mut mapped: Vec<(DVec3, [i64; 3])> = vec![];
    for p in &all {
        match guarded(|| bd.iloc(*p)) {
            Ok(q) => {
                e.impl_runs += 1;
                for c in q {
                    if !(0..=TOP).contains(&c) {
                        e.issue("grid-map-out-of-range", &case, format!("position {} maps to {:?}", fmt_vec(*p), q), rp());
                    }
                }
                mapped.push((*p, q));
            }
            Err(pn) => e.issue("panic-in-grid-map", &case, format!("position {}: {}", fmt_vec(*p), pn.msg), rp()),
        }
    }
    // monotone along each axis; equal positions map to equal integers
    let mut h = Fnv::new();
    for ax in 0..3 {
        let mut v: Vec<(f64, i64)> = mapped.iter().map(|(p, q)| (comp(*p, ax), q[ax])).collect();
        v.sort_by(|a, b| a.0.partial_cmp(&b.0).unwrap());
        v.dedup();
        for w in v.windows(2) {
            e.transitions += 1;
            if w[0].0 == w[1].0 && w[0].1 != w[1].1 {
                e.issue("grid-map-not-a-function-of-the-coordinate", &case, format!("axis {}: coordinate {:?} maps to {} and {}", ax, w[0].0, w[0].1, w[1].1), rp());
            }
            if w[0].0 < w[1].0 && w[0].1 > w[1].1 {
                e.issue("grid-map-not-monotone", &case, format!("axis {}: {:?} -> {} but {:?} -> {}", ax, w[0].0, w[0].1, w[1].0, w[1].1), rp());
            }
            // distinct lattice positions stay distinct
            if w[1].0 - w[0].0 > comp(width, ax) / 1024. && w[0].1 == w[1].1 {
                e.issue("grid-map-collapses-distinct-positions", &case, format!("axis {}: {:?} and {:?} both map to {}", ax, w[0].0, w[1].0, w[0].1), rp());
            }
        }
        h.u64(v.len() as u64);
    }
    // uniform scaling: the same displacement along different active axes maps to the same integer difference
    let mut wmin = f64::INFINITY;
    for ax in 0..*dim {
        wmin = wmin.min(comp(width, ax));
    }
    for t in [1. / 8., 1. / 4., 1. / 2., 1.] {
        let base = anchor
            + v3(
                0.,
                if *dim >= 2 { 0. } else { 0.5 },
                if *dim >= 3 { 0. } else { 0.5 },
            );
        let q0 = match guarded(|| bd.iloc(base)) {
            Ok(q) => q,
            Err(pn) => {
                e.issue("panic-in-grid-map", &case, format!("position {}: {}", fmt_vec(base), pn.msg), rp());
                continue;
            }
        };
        let mut diffs = vec![];
        for ax in 0..*dim {
            let mut p = base;
            set_comp(&mut p, ax, comp(base, ax) + t * wmin);
            match guarded(|| bd.iloc(p)) {
                Ok(q) => diffs.push(q[ax] - q0[ax]),
                Err(pn) => e.issue("panic-in-grid-map", &case, format!("position {}: {}", fmt_vec(p), pn.msg), rp()),
            }
        }
        if diffs.len() != *dim {
            continue;
        }
        e.transitions += 1;
        if diffs.iter().any(|d| (d - diffs[0]).abs() > 2) {
            e.issue("grid-map-not-a-uniform-scaling", &case, format!("displacement {} x min width along the active axes maps to integer differences {:?}", t, diffs), rp());
        }
    }
    e.sig = h.finish();
    e.nontrivial = true;
    e
}

pub fn run_c10(run: &mut Run) {
    let thorough = run.thorough();
    run.rule = "exhaustive 5-tuples of a small integer grid through the hook wrapper of the exact predicate vs i128 determinant, geometric meaning (exact rational circumsphere) and 512-bit oracle; each tuple pushed through a finite menu of embeddings into [0,2^52) (7 scales x 4 translations x 6 axis permutations x 8 reflections, thinned in quick); adversarial co-spherical families with +-1 displacements; orientation of every vertex dual of every reachable 3D cell; grid map (range, monotone, uniform) over every queryable position of every box; non-trivial block = contains a non-zero determinant".to_string();
    // (1) exhaustive small grid 2^3 with embeddings
    let embs = embeddings(3, thorough);
    let pts = grid_points3(QUICK_GRID);
    let blocks: Vec<Block> = pts.iter().flat_map(|&a| pts.iter().map(move |&b| Block { m: QUICK_GRID, a, b })).collect();
    run.family(format!("all 5-tuples of {{0,1,2}}x{{0,1}}x{{0,1}} (248832) x {} embeddings", embs.len()), 248832);
    run.bounds.push(format!("grid 3x2x2: exhaustive, {} embeddings per tuple", embs.len()));
    run.explore(&blocks, |b| eval_block(b, &embs), |b| J::s(format!("block a={:?} b={:?} of grid 3x2x2: all (c,d,v)", b.a, b.b)));
    if thorough {
        // grid 3^3: 14 348 907 tuples, identity embedding + one scale
        let embs3: Vec<Embedding> = embeddings(3, false).into_iter().filter(|e| e.name.contains("scale=2^49-1 translate=origin perm=[0, 1, 2] flip=000") || e.name.contains("scale=2^25 translate=top perm=[1, 0, 2] flip=101")).collect();
        let pts3 = grid_points(3);
        let blocks3: Vec<Block> = pts3.iter().flat_map(|&a| pts3.iter().map(move |&b| Block { m: [3, 3, 3], a, b })).collect();
        run.family(format!("all 5-tuples of {{0,1,2}}^3 (14348907) x {} embeddings", embs3.len()), 14348907);
        run.bounds.push("grid 3^3: exhaustive".to_string());
        run.explore(&blocks3, |b| eval_block(b, &embs3), |b| J::s(format!("block a={:?} b={:?} of grid 3^3", b.a, b.b)));
    }
    // (2) adversarial
    let adv: Vec<usize> = (0..4).collect();
    run.family("adversarial: co-spherical grid tuples scaled, +-1 displacements; integer points on 3 large spheres".to_string(), 4);
    run.explore(&adv, |i| eval_adversarial(*i, thorough), |i| J::s(format!("adversarial family {}", i)));
    // (3) orientation of the duals over the 3D E1 states
    for fam in e1_families(thorough, &[3], &[false, true]) {
        let states = fam.states();
        run.family(format!("dual orientation: {}", fam.describe()), states.len() as u64);
        run.explore(&states, eval_dual_orientation, |s| s.to_json());
    }
    // (3b) the predicate as the clipping code uses it: every vertex decision the floating-point filter leaves open, in
    // every clip of every cell of the E1 states (1D/2D/3D: exact ties) and of the displaced / co-spherical families (near
    // ties with a non-zero determinant), against the integer oracle on the grid positions
    {
        let mut fams: Vec<(String, Vec<State>)> = vec![];
        for fam in e1_families(thorough, &[1, 2, 3], &[false, true]) {
            if fam.alpha == "G" && !thorough {
                continue;
            }
            fams.push((fam.describe(), fam.states()));
        }
        for b in box_menu(false).iter().take(2) {
            for periodic in [false, true] {
                let tag = if periodic { "P" } else { "R" };
                fams.push((format!("displaced 3{}|{}|L3a K<=2", tag, b.name), crate::checks::c05::displaced_states(3, periodic, b, L3A, 2)));
                fams.push((format!("displaced 2{}|{}|L2h K<=3", tag, b.name), crate::checks::c05::displaced_states(2, periodic, b, Lattice { name: "L2h", m: 2 }, 3)));
                fams.push((format!("cospherical 3{}|{}", tag, b.name), crate::checks::c05::cospherical_states(3, periodic, b, 2)));
                fams.push((format!("cocircular 2{}|{}", tag, b.name), crate::checks::c05::cospherical_states(2, periodic, b, 3)));
            }
        }
        for (desc, states) in fams {
            run.family(format!("tie decisions of the clipping code: {}", desc), states.len() as u64);
            run.explore(&states, crate::checks::c05::eval_near_ties, |s| s.to_json());
        }
    }
    // (4) grid map
    let mut inputs = vec![];
    for b in box_menu(true) {
        for dim in 1..=3 {
            for periodic in [false, true] {
                inputs.push((b, dim, periodic));
            }
        }
    }
    // small and large boxes for the low-dimensional normalisation
    for (name, w) in [("tiny", 1. / 1024.), ("huge", 4096.)] {
        let b = BoxSpec { name: Box::leak(name.to_string().into_boxed_str()), anchor: v3(3., -7., 11.), width: v3(w, w * 2., w * 0.5) };
        for dim in 1..=3 {
            for periodic in [false, true] {
                inputs.push((b, dim, periodic));
            }
        }
    }
    run.family("grid map: boxes x dimensionality x boundary kind; positions = 9^d lattice of the closed box, 6 wall mirrors each, 3^d periodic images".to_string(), inputs.len() as u64);
    run.explore(&inputs, eval_grid_map, |i| J::s(format!("{}|{}", dim_tag(i.1, i.2), i.0.name)));
}

// ---------------------------------------------------------------------------------------------
// C11

pub fn backend_name() -> &'static str {
    if cfg!(feature = "be_dashu") {
        "dashu"
    } else if cfg!(feature = "be_malachite") {
        "malachite"
    } else if cfg!(feature = "be_num_bigint") {
        "num_bigint"
    } else {
        "ibig"
    }
}

fn tess_digest(st: &State) -> String {
    match build_voronoi(st, None) {
        Err(p) => format!("panic:{}", p.msg.chars().take(60).collect::<String>()),
        Ok(v) => {
            let mut h = Fnv::new();
            for c in v.cells() {
                h.f64(c.volume());
                h.vec3(c.centroid());
                h.f64(c.safety_radius());
                h.u64(c.face_count() as u64);
            }
            for f in v.faces() {
                h.u64(f.left() as u64);
                h.u64(f.right().map_or(u64::MAX, |r| r as u64));
                h.f64(f.area());
                h.vec3(f.centroid());
                if let Some(s) = f.shift() {
                    h.vec3(s);
                }
            }
            for c in v.cell_face_connections() {
                h.u64(*c as u64);
            }
            // integrator route with faces in 3D (vertex order depends on every clip decision)
            if st.dim == 3 {
                if let Ok(i) = build_integrator(st, None) {
                    for c in i.cells_iter() {
                        for vtx in &c.vertices {
                            h.vec3(vtx.loc);
                            for d in vtx.dual {
                                h.u64(d as u64);
                            }
                        }
                    }
                }
            }
            format!("{:016x}", h.finish())
        }
    }
}

/// The digest stream of this back end: (case id, digest) lines.
pub fn c11_part(tier: &str) -> i32 {
    let thorough = tier == "thorough";
    let mut lines: Vec<String> = vec![];
    // (i) predicate tables
    let pts = grid_points3(QUICK_GRID);
    let embs = embeddings(3, thorough);
    let blocks: Vec<(P, P)> = pts.iter().flat_map(|&a| pts.iter().map(move |&b| (a, b))).collect();
    let tab: Vec<String> = blocks
        .par_iter()
        .map(|(a, b)| {
            let mut h = Fnv::new();
            for &c in &pts {
                for &d in &pts {
                    for &v in &pts {
                        h.u64((lib_sign(*a, *b, c, d, v) + 2) as u64);
                        for em in &embs {
                            let q: Vec<P> = [*a, *b, c, d, v].iter().map(|p| em.apply(*p, QUICK_GRID)).collect();
                            h.u64((lib_sign(q[0], q[1], q[2], q[3], q[4]) + 2) as u64);
                        }
                    }
                }
            }
            format!("pred|grid3x2x2|a={:?}|b={:?}\t{:016x}", a, b, h.finish())
        })
        .collect();
    lines.extend(tab);
    if thorough {
        let pts3 = grid_points(3);
        let blocks3: Vec<(P, P)> = pts3.iter().flat_map(|&a| pts3.iter().map(move |&b| (a, b))).collect();
        let tab3: Vec<String> = blocks3
            .par_iter()
            .map(|(a, b)| {
                let mut h = Fnv::new();
                for &c in &pts3 {
                    for &d in &pts3 {
                        for &v in &pts3 {
                            h.u64((lib_sign(*a, *b, c, d, v) + 2) as u64);
                        }
                    }
                }
                format!("pred|grid3|a={:?}|b={:?}\t{:016x}", a, b, h.finish())
            })
            .collect();
        lines.extend(tab3);
    }
    for i in 0..4usize {
        let e = eval_adversarial(i, thorough);
        lines.push(format!("pred|adversarial{}\t{:016x}:{}", i, e.sig, e.issues.len()));
    }
    // (ii) tessellations of the C05 families
    for (desc, states, _) in c05::c05_families(thorough) {
        let d: Vec<String> = states.par_iter().map(|s| format!("tess|{}\t{}", s.id, tess_digest(s))).collect();
        let _ = desc;
        lines.extend(d);
    }
    let path = std::env::var("VERIF_C11_OUT").unwrap_or_else(|_| format!("/tmp/c11_{}_{}.digest", backend_name(), tier));
    if std::fs::write(&path, lines.join("\n") + "\n").is_err() {
        eprintln!("MACHINERY: cannot write {}", path);
        return 2;
    }
    println!("C11PART backend={} lines={} exact_calls={} -> {}", backend_name(), lines.len(), meshless_voronoi::verif::exact_calls(), path);
    0
}

pub fn run_c11(run: &mut Run) {
    run.rule = "the harness is built once per big-integer back end (ibig, dashu, malachite, num_bigint); each binary runs the complete C10 predicate tables (with embeddings and adversarial families) and builds every state of the C05 families, writing one digest per case (sign-table hash; bitwise tessellation digest incl. vertex duals; or panic message); the four streams are compared case by case; non-trivial = a tessellation case".to_string();
    run.assumptions.push("rug cannot be built in the sandbox (GMP's configure needs m4)".to_string());
    let files = std::env::var("VERIF_C11_FILES").unwrap_or_default();
    let files: Vec<&str> = files.split(':').filter(|s| !s.is_empty()).collect();
    if files.len() < 2 {
        eprintln!("MACHINERY: C11 needs VERIF_C11_FILES=<digest files of at least two back ends> (use ./check C11)");
        std::process::exit(2);
    }
    let mut streams: Vec<(String, Vec<(String, String)>)> = vec![];
    for f in &files {
        let Ok(text) = std::fs::read_to_string(f) else {
            eprintln!("MACHINERY: cannot read {}", f);
            std::process::exit(2);
        };
        let v: Vec<(String, String)> = text.lines().filter_map(|l| l.split_once('\t')).map(|(a, b)| (a.to_string(), b.to_string())).collect();
        let name = std::path::Path::new(f).parent().and_then(|p| p.file_name()).map(|n| n.to_string_lossy().replace("target-be-", "")).unwrap_or_else(|| f.to_string());
        streams.push((name, v));
    }
    let refs = &streams[0];
    run.bounds.push(format!("back ends compared: {}", streams.iter().map(|s| s.0.clone()).collect::<Vec<_>>().join(", ")));
    for (name, s) in streams.iter().skip(1) {
        if s.len() != refs.1.len() {
            let mut e = Eval::default();
            e.issue("stream-length", format!("{} vs {}", refs.0, name), format!("{} vs {} cases", refs.1.len(), s.len()), String::new());
            run.absorb(e);
        }
    }
    let n = refs.1.len();
    for k in 0..n {
        let mut e = Eval::default();
        let (case, dig) = &refs.1[k];
        e.impl_runs = streams.len() as u64;
        e.transitions = (streams.len() - 1) as u64;
        e.nontrivial = case.starts_with("tess|");
        e.sig = hash_str(dig) % 4096;
        for (name, s) in streams.iter().skip(1) {
            if let Some((c2, d2)) = s.get(k) {
                if c2 != case {
                    e.issue("stream-order", case.clone(), format!("{} has case {} at this position", name, c2), String::new());
                } else if d2 != dig {
                    let replay = if let Some(id) = case.strip_prefix("tess|") { format!("check=c11\nnote=build this state with each back end (./check C11) and compare\nid={}\n", id) } else { format!("check=c11\ncase={}\n", case) };
                    e.issue(
                        if case.starts_with("pred|") { "predicate-signs-differ-between-backends" } else { "tessellation-differs-between-backends" },
                        case.clone(),
                        format!("{}: {} but {}: {}", refs.0, dig, name, d2),
                        replay,
                    );
                }
            }
        }
        run.absorb(e);
        if k < 2 || k == n - 1 {
            run.samples.push(J::obj(vec![("case", J::s(case.clone())), ("digest", J::s(dig.clone()))]));
        }
    }
    run.family("digest streams".to_string(), n as u64);
}
