//! C01 (cells = nearest-generator regions), C02 (tiling), C03 (reciprocity), C04 (normals, closure).

use crate::alpha::*;
use crate::obs::*;
use crate::oracle::*;
use crate::report::*;
use crate::tess::*;
use crate::util::*;
use glam::DVec3;
use meshless_voronoi::integrals::{VolumeCentroidIntegral, VolumeIntegral};
use meshless_voronoi::Voronoi;
use std::collections::BTreeMap;

// ---------------------------------------------------------------------------------------------
// C01

pub fn eval_c01(st: &State) -> Eval {
    let mut e = Eval::default();
    let check = "c01";
    let case = st.id.clone();
    let t = tol(st);
    let oc = ocells(st);
    let (sig, nt) = shape_signature(&oc, &t);
    e.sig = sig;
    e.nontrivial = nt;
    let x0 = exact_calls_thread();
    let mut sig: Vec<f64> = vec![1.0; st.n()];
    // integrator route: volumes, centroids, vertices, complete face lists
    match build_integrator(st, None) {
        Err(p) => panic_issue(&mut e, check, st, &case, &[], &p, "VoronoiIntegrator::build"),
        Ok(integ) => {
            e.impl_runs += 1;
            sig = sigmas(&integ, st.n());
            let vc = integ.compute_cell_integrals::<VolumeCentroidIntegral>();
            let recs = integ.compute_face_integrals::<FaceRec>();
            let lf = lib_cell_faces(st, &recs, st.n());
            if vc.len() != st.n() {
                e.issue("cell-count", &case, format!("{} cell integrals for {} generators", vc.len(), st.n()), replay_text(check, st, &[]));
            } else {
                for i in 0..st.n() {
                    let cell = integ.get_cell_at(i);
                    let Some(cell) = cell else {
                        e.issue("cell-missing", &case, format!("cell {} not constructed", i), replay_text(check, st, &[]));
                        continue;
                    };
                    let verts = lib_vertices(cell);
                    let sg = sigma_min(cell);
                    compare_cell_with_oracle(&mut e, check, st, &case, &[], i, &oc[i], &t, vc[i].volume, vc[i].centroid, Some(&lf[i]), Some((&verts, sg)));
                    // every oracle vertex satisfies every half space the library clipped the cell with
                    let vt = 10. * pos_for(&t, sg);
                    'ov: for u in &oc[i].verts {
                        for (k, hs) in cell.clipping_planes.iter().enumerate() {
                            let sd = hs.plane.n.dot(*u - hs.plane.p);
                            if !(sd >= -vt) {
                                e.issue("oracle-vertex-outside-library-half-space", &case, format!("cell {}: oracle vertex {} lies {:e} outside the library's clipping plane {} (right {:?})", i, fmt_vec(*u), -sd, k, hs.right_idx), replay_text(check, st, &[]));
                                break 'ov;
                            }
                        }
                    }
                    e.transitions += oc[i].faces.len() as u64;
                }
            }
        }
    }
    // direct route: stored cells and owned faces
    match build_voronoi(st, None) {
        Err(p) => panic_issue(&mut e, check, st, &case, &[], &p, "Voronoi::build"),
        Ok(v) => {
            e.impl_runs += 1;
            compare_voronoi_with_oracle(&mut e, check, st, &case, &[], &v, &oc, &t, None, &sig);
        }
    }
    e.exact_calls = exact_calls_thread() - x0;
    e
}

/// Large states (1000+ generators): every cell is built, the measures must tile the box, and a committed subset of the
/// cells (the first 8, every 97th, the last 8 - the isolated generators of the density-contrast states) is compared
/// with the oracle in full (volume, centroid, vertices, complete face list).
/// C02 on large states: tiling through both routes.
pub fn eval_c02_large(st: &State) -> Eval {
    let mut e = Eval::default();
    let check = "c02";
    let case = st.id.clone();
    let bm = st.box_measure();
    match build_voronoi(st, None) {
        Err(p) => panic_issue(&mut e, check, st, &case, &[], &p, "Voronoi::build"),
        Ok(v) => {
            e.impl_runs += 1;
            let total: f64 = v.cells().iter().map(|c| c.volume()).sum();
            let min = v.cells().iter().map(|c| c.volume()).fold(f64::INFINITY, f64::min);
            if !((total - bm).abs() <= 1e-9 * bm) {
                e.issue("total-measure(Voronoi)", &case, format!("sum of {} cell measures {:e} != box measure {:e}", st.n(), total, bm), replay_text(check, st, &[]));
            }
            if !(min > 0.) {
                e.issue("cell-measure-not-positive", &case, format!("smallest cell measure {:e}", min), replay_text(check, st, &[]));
            }
        }
    }
    match build_integrator(st, None) {
        Err(p) => panic_issue(&mut e, check, st, &case, &[], &p, "VoronoiIntegrator::build"),
        Ok(i) => {
            e.impl_runs += 1;
            let vols = i.compute_cell_integrals::<VolumeIntegral>();
            let total: f64 = vols.iter().map(|c| c.volume).sum();
            if vols.len() != st.n() || !((total - bm).abs() <= 1e-9 * bm) || vols.iter().any(|c| !(c.volume > 0.)) {
                e.issue("total-measure(VolumeIntegral)", &case, format!("{} cells, sum of VolumeIntegral {:e} != box measure {:e}", vols.len(), total, bm), replay_text(check, st, &[]));
            }
        }
    }
    e.sig = st.n() as u64;
    e.nontrivial = true;
    e.transitions = st.n() as u64;
    e
}

pub fn eval_c01_large(st: &State) -> Eval {
    let mut e = Eval::default();
    let check = "c01";
    let case = st.id.clone();
    let t = tol(st);
    let n = st.n();
    let x0 = exact_calls_thread();
    let subset: Vec<usize> = (0..n).filter(|&q| q < 8 || q % 97 == 0 || q + 8 >= n).collect();
    match build_integrator(st, None) {
        Err(p) => panic_issue(&mut e, check, st, &case, &[], &p, "VoronoiIntegrator::build"),
        Ok(integ) => {
            e.impl_runs += 1;
            let vc = integ.compute_cell_integrals::<VolumeCentroidIntegral>();
            let recs = integ.compute_face_integrals::<FaceRec>();
            let lf = lib_cell_faces(st, &recs, n);
            if vc.len() != n {
                e.issue("cell-count", &case, format!("{} cell integrals for {} generators", vc.len(), n), replay_text(check, st, &[]));
            } else {
                let total: f64 = vc.iter().map(|c| c.volume).sum();
                let bm = st.box_measure();
                if !((total - bm).abs() <= 1e-9 * bm) || vc.iter().any(|c| !(c.volume > 0.)) {
                    e.issue("total-measure(large state)", &case, format!("sum of {} cell measures {:e}, box measure {:e}; smallest cell {:e}", n, total, bm, vc.iter().map(|c| c.volume).fold(f64::INFINITY, f64::min)), replay_text(check, st, &[]));
                }
                for &i in &subset {
                    let Some(cell) = integ.get_cell_at(i) else {
                        e.issue("cell-missing", &case, format!("cell {} not constructed", i), replay_text(check, st, &[]));
                        continue;
                    };
                    let oc = oracle_cell(st, i);
                    let verts = lib_vertices(cell);
                    let sg = sigma_min(cell);
                    compare_cell_with_oracle(&mut e, check, st, &case, &[], i, &oc, &t, vc[i].volume, vc[i].centroid, Some(&lf[i]), Some((&verts, sg)));
                    e.transitions += oc.faces.len() as u64;
                }
            }
        }
    }
    match build_voronoi(st, None) {
        Err(p) => panic_issue(&mut e, check, st, &case, &[], &p, "Voronoi::build"),
        Ok(v) => {
            e.impl_runs += 1;
            let total: f64 = v.cells().iter().map(|c| c.volume()).sum();
            let bm = st.box_measure();
            if !((total - bm).abs() <= 1e-9 * bm) {
                e.issue("total-measure(large state, Voronoi)", &case, format!("sum of cell measures {:e}, box measure {:e}", total, bm), replay_text(check, st, &[]));
            }
        }
    }
    e.sig = n as u64;
    e.nontrivial = true;
    e.exact_calls = exact_calls_thread() - x0;
    e
}

/// Compare the compact tessellation with the oracle: cells, and the face list under the ownership
/// rule (a face between constructed cells i<j without shift is stored once, with left = i; every
/// other face of a constructed cell is stored with that cell on the left).
#[allow(clippy::too_many_arguments)]
pub fn compare_voronoi_with_oracle(
    e: &mut Eval,
    check: &str,
    st: &State,
    case: &str,
    extra: &[(&str, String)],
    v: &Voronoi,
    oc: &[OCell],
    t: &Tol,
    mask: Option<&[bool]>,
    sig: &[f64],
) {
    let rp = || replay_text(check, st, extra);
    let n = st.n();
    let sall = sigma_all(sig);
    let active = |i: usize| mask.map_or(true, |m| m[i]);
    if v.cells().len() != n {
        e.issue("cell-count", case, format!("{} cells for {} generators", v.cells().len(), n), rp());
        return;
    }
    for i in 0..n {
        let c = &v.cells()[i];
        if active(i) {
            compare_cell_with_oracle(e, check, st, case, extra, i, &oc[i], t, c.volume(), c.centroid(), None, Some((&[], sig[i])));
        }
    }
    // expected owned faces
    let mut lib: BTreeMap<(usize, FaceKey), Vec<usize>> = BTreeMap::new();
    for (fi, f) in v.faces().iter().enumerate() {
        match face_key(st, f.right(), f.shift(), f.normal()) {
            Ok(k) => lib.entry((f.left(), k)).or_default().push(fi),
            Err(err) => e.issue("face-identity", case, format!("face {} (left {}): {}", fi, f.left(), err), rp()),
        }
    }
    for i in 0..n {
        if !active(i) {
            continue;
        }
        let ct = cell_tol(t, &oc[i], sall);
        for of in &oc[i].faces {
            if matches!(of.key, FaceKey::Far(_)) || !face_is_active(st.dim, of) {
                continue;
            }
            let owned_by_other = match of.key {
                FaceKey::Ngb(j, s) => s == [0, 0, 0] && j < i && active(j),
                _ => false,
            };
            if owned_by_other {
                continue;
            }
            let ft = face_tol(t, of, ct.pos);
            let r9 = matches!(of.key, FaceKey::Wall(w) if wall_through_generator(st, i, w, t));
            match lib.get(&(i, of.key)) {
                None => {
                    if !ft.negligible {
                        e.issue("stored-face-missing", case, format!("cell {}: oracle face {} (area {:e}) is not in Voronoi::faces", i, of.key.describe(), of.area), rp());
                    }
                }
                Some(list) => {
                    if list.len() > 1 {
                        e.issue("stored-face-duplicate", case, format!("cell {}: face {} stored {} times", i, of.key.describe(), list.len()), rp());
                    }
                    let f = &v.faces()[list[0]];
                    let bad_area = !((f.area() - of.area).abs() <= ft.area);
                    let bad_c = !ft.negligible && ft.compare_centroid && !(f.centroid().distance(of.centroid) <= ft.centroid);
                    if bad_area || bad_c {
                        if r9 {
                            e.excuse(R9_CLAUSE);
                        } else if bad_area {
                            e.issue("stored-face-area-vs-oracle", case, format!("cell {}: face {} stored area {:e} oracle {:e} (tol {:e})", i, of.key.describe(), f.area(), of.area, ft.area), rp());
                        } else {
                            e.issue(
                                "stored-face-centroid-vs-oracle",
                                case,
                                format!("cell {}: face {} stored centroid {} oracle {}", i, of.key.describe(), fmt_vec(f.centroid()), fmt_vec(of.centroid)),
                                rp(),
                            );
                        }
                    }
                }
            }
        }
    }
    // spurious stored faces
    for ((left, k), list) in &lib {
        let f = &v.faces()[list[0]];
        if *left >= n || !active(*left) {
            e.issue("stored-face-inactive-left", case, format!("face {} has left {} which is not a constructed cell", k.describe(), left), rp());
            continue;
        }
        let of = oc[*left].faces.iter().find(|f| f.key == *k);
        let lim = t.neg_area + cell_tol(t, &oc[*left], sall).pos * 4. * t.l.powi((st.dim as i32 - 2).max(0));
        let r9 = matches!(k, FaceKey::Wall(w) if wall_through_generator(st, *left, *w, t));
        match of {
            None => {
                if !(f.area().abs() <= lim) {
                    if r9 {
                        e.excuse(R9_CLAUSE);
                    } else {
                        e.issue("stored-face-spurious", case, format!("cell {}: stored face {} with area {:e} does not exist in the oracle cell", left, k.describe(), f.area()), rp());
                    }
                }
            }
            Some(_) => {
                if let FaceKey::Ngb(j, s) = k {
                    if *s == [0, 0, 0] && *j < *left && active(*j) && !(f.area().abs() <= lim) {
                        e.issue("stored-face-wrong-owner", case, format!("face between {} and {} is stored with the higher index on the left", left, j), rp());
                    }
                }
            }
        }
    }
}

// ---------------------------------------------------------------------------------------------
// C02

pub fn eval_c02(st: &State) -> Eval {
    let mut e = Eval::default();
    let check = "c02";
    let case = st.id.clone();
    let t = tol(st);
    let x0 = exact_calls_thread();
    let box_measure = st.box_measure();
    // tolerance: sum over cells of pos * surface, bounded via box surface * (n+1)
    let w = st.norm_width();
    let surf_box = 2. * (w.x * w.y + w.y * w.z + w.x * w.z);
    let sall = match build_integrator(st, None) {
        Ok(i) => sigma_all(&sigmas(&i, st.n())),
        Err(_) => 1.0,
    };
    let tol_total = pos_for(&t, sall) * surf_box * (st.n() as f64 + 1.) * 4. + 1e-11 * box_measure;
    let mut h = Fnv::new();
    match build_voronoi(st, None) {
        Err(p) => panic_issue(&mut e, check, st, &case, &[], &p, "Voronoi::build"),
        Ok(v) => {
            e.impl_runs += 1;
            let mut total = 0.;
            for (i, c) in v.cells().iter().enumerate() {
                // strictly positive, unless the true measure is itself below the rounding floor of the box scale
                let tiny = oracle_cell(st, i).volume <= 1e-12 * box_measure;
                if !c.volume().is_finite() || (!tiny && !(c.volume() > 0.)) || (tiny && !(c.volume() >= -1e-13 * box_measure)) {
                    e.issue("cell-measure-not-positive", &case, format!("cell {} has measure {:e}", i, c.volume()), replay_text(check, st, &[]));
                }
                total += c.volume();
                h.u64((c.volume() / box_measure * 64.).round() as u64);
            }
            e.transitions += v.cells().len() as u64;
            if !((total - box_measure).abs() <= tol_total) {
                e.issue(
                    "total-measure(Voronoi)",
                    &case,
                    format!("sum of cell measures {:e} != box measure {:e} (diff {:e}, tol {:e})", total, box_measure, total - box_measure, tol_total),
                    replay_text(check, st, &[]),
                );
            }
        }
    }
    match build_integrator(st, None) {
        Err(p) => panic_issue(&mut e, check, st, &case, &[], &p, "VoronoiIntegrator::build"),
        Ok(integ) => {
            e.impl_runs += 1;
            let vols = integ.compute_cell_integrals::<VolumeIntegral>();
            let mut total = 0.;
            for (i, c) in vols.iter().enumerate() {
                let tiny = i < st.n() && oracle_cell(st, i).volume <= 1e-12 * box_measure;
                if !c.volume.is_finite() || (!tiny && !(c.volume > 0.)) || (tiny && !(c.volume >= -1e-13 * box_measure)) {
                    e.issue("cell-measure-not-positive", &case, format!("cell {} has VolumeIntegral {:e}", i, c.volume), replay_text(check, st, &[]));
                }
                total += c.volume;
            }
            if vols.len() != st.n() || !((total - box_measure).abs() <= tol_total) {
                e.issue(
                    "total-measure(VolumeIntegral)",
                    &case,
                    format!("{} cells, sum of VolumeIntegral {:e} != box measure {:e} (tol {:e})", vols.len(), total, box_measure, tol_total),
                    replay_text(check, st, &[]),
                );
            }
        }
    }
    e.sig = h.finish();
    e.nontrivial = st.n() >= 1;
    e.exact_calls = exact_calls_thread() - x0;
    e
}

// ---------------------------------------------------------------------------------------------
// C03: state = (tessellation state, mask)

pub fn eval_c03(st: &State) -> Eval {
    let mut e = Eval::default();
    let check = "c03";
    let t = tol(st);
    let n = st.n();
    let x0 = exact_calls_thread();
    let mut h = Fnv::new();
    // (a) reciprocity on the non-symmetric face integrals of the full integrator
    let case = st.id.clone();
    // pairs (a<b) that share an unshifted face of non-negligible area (as seen by the full integrator)
    let mut shared_pairs: Vec<(usize, usize, f64)> = vec![];
    let mut sig: Vec<f64> = vec![1.0; n];
    match build_integrator(st, None) {
        Err(p) => panic_issue(&mut e, check, st, &case, &[], &p, "VoronoiIntegrator::build"),
        Ok(integ) => {
            e.impl_runs += 1;
            let recs = integ.compute_face_integrals::<FaceRec>();
            let lf = lib_cell_faces(st, &recs, n);
            let w = st.norm_width();
            sig = sigmas(&integ, n);
            let mut flux = DVec3::ZERO;
            let mut flux_scale = 0.;
            for i in 0..n {
                for (k, list) in &lf[i].by_key {
                    let r = &list[0];
                    let FaceKey::Ngb(j, s) = *k else { continue };
                    e.transitions += 1;
                    // area scale for tolerances: perimeter unknown -> use L^(d-2) * 4
                    let pos = pos_for(&t, sig[i].min(sig[j.min(n - 1)]));
                    let atol = pos * 8. * t.l.powi((st.dim as i32 - 2).max(0)) + 1e-9 * r.area.abs();
                    let back = FaceKey::Ngb(i, [-s[0], -s[1], -s[2]]);
                    let rr = lf[j].by_key.get(&back).map(|l| &l[0]);
                    h.u64(j as u64);
                    // antisymmetric flux: area * outward normal, counted from both sides
                    flux += r.area * (-r.n_in);
                    flux_scale += r.area.abs();
                    if r.area.abs() <= t.neg_area + atol {
                        continue;
                    }
                    match rr {
                        None => e.issue(
                            "reciprocal-face-missing",
                            &case,
                            format!("cell {} has face {} with area {:e} but cell {} has no face {}", i, k.describe(), r.area, j, back.describe()),
                            replay_text(check, st, &[]),
                        ),
                        Some(rr) => {
                            if !((r.area - rr.area).abs() <= atol) {
                                e.issue(
                                    "reciprocal-area",
                                    &case,
                                    format!("face {}->{}: area {:e} from the left, {:e} from the right (tol {:e})", i, k.describe(), r.area, rr.area, atol),
                                    replay_text(check, st, &[]),
                                );
                            }
                            let shift = v3(s[0] as f64 * w.x, s[1] as f64 * w.y, s[2] as f64 * w.z);
                            let ctol = 4. * pos * (1. + 16. * t.l.powi(st.dim as i32 - 1) / r.area.abs().max(1e-300)) ;
                            if r.area > 100. * atol && !((r.centroid - (rr.centroid + shift)).length() <= ctol) {
                                e.issue(
                                    "reciprocal-centroid",
                                    &case,
                                    format!("face {}->{}: centroid {} vs shifted centroid from the other side {}", i, k.describe(), fmt_vec(r.centroid), fmt_vec(rr.centroid + shift)),
                                    replay_text(check, st, &[]),
                                );
                            }
                            // the normal is (right + shift - left) normalised, formed in global coordinates: its rounding
                            // error is u x magnitude / distance between the two generators (twice the distance to the face)
                            let gdist = 2. * (r.centroid - st.gen_loc(i)).dot(r.n_in).abs();
                            let ntol = (1e-9f64).max(64. * f64::EPSILON * t.mag / gdist.max(1e-300));
                            if !((r.n_in + rr.n_in).length() <= ntol) {
                                e.issue(
                                    "reciprocal-normal",
                                    &case,
                                    format!("face {}->{}: plane normals {} and {} are not opposite", i, k.describe(), fmt_vec(r.n_in), fmt_vec(rr.n_in)),
                                    replay_text(check, st, &[]),
                                );
                            }
                        }
                    }
                }
            }
            for i in 0..n {
                for (k, list) in &lf[i].by_key {
                    if let FaceKey::Ngb(j, [0, 0, 0]) = *k {
                        let a = list[0].area;
                        if i < j && a > 4. * (t.neg_area + pos_for(&t, sigma_all(&sig)) * 8. * t.l.powi((st.dim as i32 - 2).max(0))) {
                            shared_pairs.push((i, j, a));
                        }
                    }
                }
            }
            if !(flux.length() <= 1e-9 * flux_scale + 16. * pos_for(&t, sigma_all(&sig)) * t.l.powi((st.dim as i32 - 2).max(0)) * (n * n) as f64) {
                e.issue("flux-cancellation", &case, format!("sum over all interior faces of area*outward normal = {} (scale {:e})", fmt_vec(flux), flux_scale), replay_text(check, st, &[]));
            }
        }
    }
    // (b) compact tessellation, all masks: stored once / listed by both / reciprocal periodic pairs
    let masks: Vec<Option<Vec<bool>>> = masks_menu(n, 4);
    let mut prev_owner: BTreeMap<String, BTreeMap<(usize, usize), usize>> = BTreeMap::new();
    for mask in &masks {
        let ms = mask.as_ref().map(|m| mask_str(m)).unwrap_or_else(|| "none".to_string());
        let case = format!("{}|mask={}", st.id, ms);
        let extra = [("mask", ms.clone())];
        match build_voronoi(st, mask.as_deref()) {
            Err(p) => panic_issue(&mut e, check, st, &case, &extra, &p, "Voronoi::build_partial"),
            Ok(v) => {
                e.impl_runs += 1;
                let active = |i: usize| mask.as_ref().map_or(true, |m| m[i]);
                // count occurrences of unshifted pairs
                let mut pair_count: BTreeMap<(usize, usize), Vec<usize>> = BTreeMap::new();
                let mut per: BTreeMap<(usize, usize, [i8; 3]), (f64, usize)> = BTreeMap::new();
                let mut flux = DVec3::ZERO;
                let mut flux_scale = 0.;
                for (fi, f) in v.faces().iter().enumerate() {
                    e.transitions += 1;
                    if let Some(r) = f.right() {
                        match shift_key(st, f.shift()) {
                            Ok(s) if s == [0, 0, 0] => {
                                pair_count.entry((f.left().min(r), f.left().max(r))).or_default().push(fi);
                            }
                            Ok(s) => {
                                per.insert((f.left(), r, s), (f.area(), fi));
                            }
                            Err(err) => e.issue("face-identity", &case, err, replay_text(check, st, &extra)),
                        }
                        // antisymmetric flux: +A n for the left cell, -A n for the right cell if it
                        // is constructed (unshifted: same face; shifted: the reciprocal face does it)
                        if f.shift().is_none() && active(r) {
                            // contributes +An (left) and -An (right): cancels identically
                        } else if f.shift().is_some() && active(r) {
                            flux += f.area() * f.normal();
                            flux_scale += f.area().abs();
                        }
                    }
                }
                let pg = pos_for(&t, sigma_all(&sig));
                let atol_of = |a: f64| pg * 8. * t.l.powi((st.dim as i32 - 2).max(0)) + 1e-9 * a.abs();
                for ((a, b), list) in &pair_count {
                    let area = v.faces()[list[0]].area();
                    if list.len() > 1 {
                        let big = list.iter().filter(|&&fi| v.faces()[fi].area().abs() > t.neg_area + atol_of(area)).count();
                        if big > 1 || (active(*a) && active(*b)) {
                            e.issue("stored-more-than-once", &case, format!("unshifted face between {} and {} is stored {} times", a, b, list.len()), replay_text(check, st, &extra));
                        }
                    }
                    // listed by both cells
                    for &fi in list {
                        for c in [*a, *b] {
                            let cell = &v.cells()[c];
                            let listed = cell.face_indices(&v).iter().filter(|&&x| x == fi).count();
                            if listed != 1 {
                                e.issue("not-listed-by-both", &case, format!("face {} between {} and {} is listed {} times by cell {}", fi, a, b, listed, c), replay_text(check, st, &extra));
                            }
                        }
                    }
                }
                // every unshifted face between two constructed cells is stored exactly once; between a
                // constructed and an unconstructed cell exactly once
                for (a, b, area) in &shared_pairs {
                    if active(*a) || active(*b) {
                        let cnt = pair_count.get(&(*a, *b)).map_or(0, |l| l.len());
                        if cnt != 1 {
                            e.issue(
                                "shared-face-not-stored-once",
                                &case,
                                format!("cells {} and {} share a face of area {:e}; it is stored {} times in Voronoi::faces", a, b, area, cnt),
                                replay_text(check, st, &extra),
                            );
                        }
                    }
                }
                // periodic faces between constructed cells come in reciprocal pairs
                for ((l, r, s), (area, _fi)) in &per {
                    if active(*l) && active(*r) && area.abs() > t.neg_area + atol_of(*area) {
                        match per.get(&(*r, *l, [-s[0], -s[1], -s[2]])) {
                            None => e.issue(
                                "periodic-pair-missing",
                                &case,
                                format!("periodic face {}->{} shift {:?} (area {:e}) has no reciprocal stored face", l, r, s, area),
                                replay_text(check, st, &extra),
                            ),
                            Some((a2, _)) => {
                                if !((area - a2).abs() <= atol_of(*area)) {
                                    e.issue("periodic-pair-area", &case, format!("periodic faces {}<->{}: areas {:e} / {:e}", l, r, area, a2), replay_text(check, st, &extra));
                                }
                            }
                        }
                    }
                }
                if !(flux.length() <= 1e-9 * flux_scale + 16. * pg * t.l.powi((st.dim as i32 - 2).max(0)) * ((n * n) as f64 + 1.)) {
                    e.issue("flux-cancellation(stored)", &case, format!("antisymmetric flux over stored periodic faces = {}", fmt_vec(flux)), replay_text(check, st, &extra));
                }
                // transition relation: ownership of faces not incident to the flipped cell is unchanged
                let mut owners: BTreeMap<(usize, usize), usize> = BTreeMap::new();
                for ((a, b), list) in &pair_count {
                    owners.insert((*a, *b), v.faces()[list[0]].left());
                }
                prev_owner.insert(ms.clone(), owners);
            }
        }
    }
    // mask-flip edges: for masks differing in bit c, faces between two cells both != c and both
    // constructed in both masks keep their owner
    if n <= 4 {
        for m in all_masks(n) {
            for c in 0..n {
                if m[c] {
                    continue;
                }
                let mut m2 = m.clone();
                m2[c] = true;
                let (Some(o1), Some(o2)) = (prev_owner.get(&mask_str(&m)), prev_owner.get(&mask_str(&m2))) else { continue };
                e.transitions += 1;
                for ((a, b), own) in o1 {
                    if *a != c && *b != c && m[*a] && m[*b] {
                        if o2.get(&(*a, *b)) != Some(own) {
                            e.issue(
                                "owner-changes-on-unrelated-flip",
                                format!("{}|mask={}->{}", st.id, mask_str(&m), mask_str(&m2)),
                                format!("face ({},{}) changes owner or vanishes when cell {} is switched on", a, b, c),
                                replay_text(check, st, &[("mask", mask_str(&m))]),
                            );
                        }
                    }
                }
            }
        }
    }
    e.sig = h.finish();
    e.nontrivial = n >= 2;
    e.exact_calls = exact_calls_thread() - x0;
    e
}

// ---------------------------------------------------------------------------------------------
// C04

pub fn eval_c04(st: &State) -> Eval {
    let mut e = Eval::default();
    let check = "c04";
    let t = tol(st);
    let n = st.n();
    let d = st.dim as f64;
    let x0 = exact_calls_thread();
    let oc = ocells(st);
    let mut h = Fnv::new();
    let pg = match build_integrator(st, None) {
        Ok(i) => pos_for(&t, sigma_all(&sigmas(&i, n))),
        Err(_) => t.pos,
    };
    let masks: Vec<Option<Vec<bool>>> = masks_menu(n, 3);
    let w = st.norm_width();
    for mask in &masks {
        let ms = mask.as_ref().map(|m| mask_str(m)).unwrap_or_else(|| "none".to_string());
        let case = format!("{}|mask={}", st.id, ms);
        let extra = [("mask", ms.clone())];
        let v = match build_voronoi(st, mask.as_deref()) {
            Err(p) => {
                panic_issue(&mut e, check, st, &case, &extra, &p, "Voronoi::build_partial");
                continue;
            }
            Ok(v) => v,
        };
        e.impl_runs += 1;
        let active = |i: usize| mask.as_ref().map_or(true, |m| m[i]);
        let rp = || replay_text(check, st, &extra);
        // per face
        for (fi, f) in v.faces().iter().enumerate() {
            e.transitions += 1;
            let nrm = f.normal();
            if !((nrm.length() - 1.).abs() <= 1e-12) {
                e.issue("normal-not-unit", &case, format!("face {} normal {} has length {:e}", fi, fmt_vec(nrm), nrm.length()), rp());
                continue;
            }
            let l = f.left();
            if l >= n {
                continue;
            }
            let gl = st.gen_loc(l);
            match f.right() {
                Some(r) => {
                    let gr = st.gen_loc(r) + f.shift().unwrap_or(DVec3::ZERO);
                    let dir = gr - gl;
                    let dn = dir.length();
                    // normal must be the unit vector from left to right(+shift)
                    if !(nrm.dot(dir) > 0.) {
                        e.issue("normal-direction", &case, format!("face {} ({}->{}): normal {} does not point away from the left generator", fi, l, r, fmt_vec(nrm)), rp());
                    } else if !((nrm - dir / dn).length() <= 1e-9) {
                        e.issue("normal-not-along-generators", &case, format!("face {} ({}->{}): normal {} is not parallel to right-left {}", fi, l, r, fmt_vec(nrm), fmt_vec(dir / dn)), rp());
                    }
                    // centroid on the bisector
                    if f.area() > t.neg_area {
                        let mid = gl + 0.5 * dir;
                        let off = nrm.dot(f.centroid() - mid).abs();
                        // signed triangles of the size of the cell cancel down to the face area
                        if !(off <= 16. * pg * (1. + t.l.powi(st.dim as i32 - 1) / f.area())) {
                            e.issue("centroid-off-bisector", &case, format!("face {} ({}->{}): centroid {} is {:e} off the bisector plane", fi, l, r, fmt_vec(f.centroid()), off), rp());
                        }
                    }
                }
                None => {
                    // boundary: outward axis direction of a wall, centroid on that wall
                    match wall_key_from_outward(nrm) {
                        Some(FaceKey::Wall(wk)) => {
                            let ax = (wk / 2) as usize;
                            let a = st.norm_anchor();
                            let coord = if wk % 2 == 0 { comp(a, ax) } else { comp(a, ax) + comp(w, ax) };
                            if st.periodic && ax < st.dim {
                                if f.area() > t.neg_area {
                                    e.issue("boundary-face-on-periodic-axis", &case, format!("face {} is a boundary face along periodic axis {}", fi, ax), rp());
                                }
                            } else {
                                // outward: the left generator must be on the inner side
                                let inner = if wk % 2 == 0 { comp(gl, ax) - coord } else { coord - comp(gl, ax) };
                                if inner < -t.pos {
                                    e.issue("wall-normal-direction", &case, format!("face {}: generator {} lies outside wall {}", fi, l, wk), rp());
                                }
                                // (also for a wall through the own generator: the known finding R9 mis-signs triangles of that
                                // face, which changes its area and moves its centroid *within* the wall plane - the centroid
                                // stays an affine combination of points of the wall; the area itself can even come out negative on the pinned tree)
                                let r9 = wall_through_generator(st, l, wk, &t);
                                if f.area() > t.neg_area {
                                    let off = (comp(f.centroid(), ax) - coord).abs();
                                    if !(off <= 16. * pg * (1. + t.l.powi(st.dim as i32 - 1) / f.area())) {
                                        e.issue("centroid-off-wall", &case, format!("face {}: centroid {} is {:e} off wall {}", fi, fmt_vec(f.centroid()), off, wk), rp());
                                    }
                                }
                                let _ = r9;
                            }
                        }
                        _ => e.issue("boundary-normal-not-axis", &case, format!("boundary face {} has normal {}", fi, fmt_vec(nrm)), rp()),
                    }
                }
            }
        }
        // per constructed cell: closure and divergence
        for i in 0..n {
            if !active(i) {
                continue;
            }
            let c = &v.cells()[i];
            let g = st.gen_loc(i);
            let mut closure = DVec3::ZERO;
            let mut div = 0.;
            let mut scale = 0.;
            let mut used_oracle = false;
            let mut skipped_bound = 0.;
            for f in c.faces(&v) {
                let is_left = f.left() == i && !(f.right() == Some(i) && false);
                // a face with left == right == i (own periodic image) is listed once, as left
                let (n_out, cen) = if is_left {
                    (f.normal(), f.centroid())
                } else {
                    (-f.normal(), f.centroid())
                };
                let (mut area, mut cen) = (f.area(), cen);
                // R9: wall through the own generator -> use the oracle's area/centroid for this face only
                if f.right().is_none() {
                    if let Some(FaceKey::Wall(wk)) = wall_key_from_outward(f.normal()) {
                        if wall_through_generator(st, i, wk, &t) {
                            if let Some(of) = oc[i].faces.iter().find(|of| of.key == FaceKey::Wall(wk)) {
                                let ft = face_tol(&t, of, pg);
                                if !((area - of.area).abs() <= ft.area) || (ft.compare_centroid && !(cen.distance(of.centroid) <= ft.centroid)) {
                                    e.excuse(R9_CLAUSE);
                                    used_oracle = true;
                                }
                                area = of.area;
                                cen = of.centroid;
                            } else {
                                area = 0.;
                            }
                        }
                    }
                }
                closure += area * n_out;
                scale += area.abs();
                // A face whose area is at the rounding level of this cell (a clipping plane that only touches the cell:
                // its signed triangles cancel up to rounding, the residue can even be negative) has no meaningful centroid
                // - the library reports (0,0,0) for a non-positive area - and is negligible in the sense of DESIGN 1.5:
                // it enters the closure sum, not the first-moment sum (its true contribution is below skipped_bound).
                let negligible = t.neg_area + 8. * pg * t.l.powi((st.dim as i32 - 2).max(0));
                if area.abs() <= negligible {
                    skipped_bound += negligible * 2. * oc[i].max_vertex_dist;
                    continue;
                }
                div += area * n_out.dot(cen - g);
            }
            // faces on the right side of shifted faces are not listed by the right cell: the cell's own
            // list is complete only if it owns all its shifted faces, which the ownership rule guarantees
            let ctol = 1e-9 * scale + 16. * pg * t.l.powi((st.dim as i32 - 2).max(0)) * (c.face_count() as f64 + 1.);
            // in the with-masks case a cell may miss faces owned by an active lower-index neighbour? no:
            // those are listed via the right link. So the list is complete.
            if !(closure.length() <= ctol) {
                e.issue("closure", &case, format!("cell {}: sum of area*outward normal = {} (tol {:e})", i, fmt_vec(closure), ctol), rp());
            }
            let vol = c.volume();
            let vtol = (pg * oc[i].surface + 1e-12 * oc[i].volume.abs()) * 4. + 1e-9 * vol.abs() + skipped_bound;
            if !((div / d - vol).abs() <= vtol) {
                e.issue(
                    "divergence",
                    &case,
                    format!("cell {}: (1/d) sum area*n.(c-g) = {:e} but volume = {:e} (tol {:e}){}", i, div / d, vol, vtol, if used_oracle { " [R9 face substituted]" } else { "" }),
                    rp(),
                );
            }
            h.u64(c.face_count() as u64);
        }
    }
    e.sig = h.finish();
    e.nontrivial = true;
    e.exact_calls = exact_calls_thread() - x0;
    e
}
