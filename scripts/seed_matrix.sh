#!/bin/bash
# seed_matrix.sh [tier] [seed dirs...] : run every seeded change against the check of its own property (and the
# extra checks listed in EXTRA), record which checks detect it in seeded/<id>/meta.json and seeded/MATRIX.md
TIER="${1:-quick}"; shift
cd /verif
SEEDS="$@"; [ -n "$SEEDS" ] || SEEDS=$(ls -d seeded/*/ | sed 's|seeded/||; s|/||')
for s in $SEEDS; do
  d=seeded/$s
  prop=$(python3 -c "import json;print(json.load(open('$d/meta.json'))['property'])")
  extra=""
  case "$prop" in
    C01|C02|C03|C04|C06) extra="C01 C02 C03 C04 C06" ;;
    C05|C10) extra="C05 C10" ;;
    C07|C12|C13) extra="C07 C12 C13" ;;
    C14|C15) extra="C13 C14 C15" ;;
    C16|C17) extra="C01 C16 C17" ;;
    C08) extra="C02 C08" ;;
  esac
  [ -n "$MATRIX_OWN_ONLY" ] && extra=""
  [ -n "$MATRIX_EXTRA" ] && extra="$extra $MATRIX_EXTRA"
  checks=$(echo "$prop $extra" | tr ' ' '\n' | awk '!s[$0]++' | tr '\n' ' ')
  res=$(SEED_LINES=2 SEED_TIMEOUT=1500 ./scripts/try_seed.sh $d/patch.diff $TIER $checks 2>&1 | grep "^== ")
  echo "### $s ($prop)"; echo "$res"
  python3 - "$d" "$TIER" "$res" <<'PY'
import json,sys,re
d,tier,res=sys.argv[1:4]
m=json.load(open(d+'/meta.json'))
det=[];missed=[];err=[]
for line in res.splitlines():
    mm=re.match(r"== (C\d+) (\w+): exit=(\d+)",line)
    if not mm: continue
    c,_,code=mm.groups()
    (det if code=='1' else missed if code=='0' else err).append(c)
m['detected_by']=det; m['not_detected_by']=missed; m['machinery_error_in']=err; m['matrix_tier']=tier
json.dump(m,open(d+'/meta.json','w'),indent=1)
PY
done
python3 - <<'PY'
import json,glob,os
rows=[]
for f in sorted(glob.glob('/verif/seeded/*/meta.json')):
    m=json.load(open(f)); s=os.path.basename(os.path.dirname(f))
    rows.append("| %s | %s | %s | %s | %s |"%(s,m['property'],' '.join(m.get('detected_by',[])) or '-',' '.join(m.get('not_detected_by',[])) or '-',' '.join(m.get('machinery_error_in',[])) or '-'))
open('/verif/seeded/MATRIX.md','w').write("# Seeded changes vs checks (tier of the last run per row is in meta.json)\n\n| seed | breaks | detected by (exit 1) | run but silent (exit 0) | machinery error (exit 2) |\n|---|---|---|---|---|\n"+"\n".join(rows)+"\n")
PY
