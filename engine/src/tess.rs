//! Shared machinery for the tessellation-state checks (engine E1): building a state through the
//! real API, comparing it with the oracle, tolerances, the R9 selector.

use crate::alpha::*;
use crate::obs::*;
use crate::oracle::*;
use crate::report::*;
use crate::util::*;
use glam::DVec3;
use meshless_voronoi::integrals::{AreaCentroidIntegral, VolumeCentroidIntegral};
use meshless_voronoi::{Voronoi, VoronoiIntegrator, WithoutFaces};
use std::collections::BTreeMap;

pub const R9_CLAUSE: &str = "wall-face-through-own-generator:area/centroid";

#[derive(Clone, Copy, Debug)]
pub struct Tol {
    /// Absolute position tolerance for well conditioned vertices
    pub pos: f64,
    /// Negligible face area
    pub neg_area: f64,
    pub l: f64,
    pub mag: f64,
    pub dim: usize,
    /// Relative slack of the position tolerance (1e-9; 1e-12 for boxes far from the origin, see `tol`)
    pub slack: f64,
}

pub fn tol(st: &State) -> Tol {
    let l = st.l_max();
    let mag = st.mag();
    // A box more than 1e6 widths away from the origin: the generous slack of 1e-9 x magnitude would be a sizeable
    // fraction of the box itself (and hide everything but panics), so such states use 1e-12 x magnitude - still about
    // 20 times the conditioning-aware bound 256 u / sigma x magnitude (sigma = 1) that decides every ill-conditioned
    // cell of the other families.
    let slack = if mag > 1e6 * l { 1e-12 } else { 1e-9 };
    // negligible face: 1e-9 L^(d-1), or - far from the origin - 256 times the rounding residue u x magnitude x L^(d-2) that
    // the signed triangles of a plane which only touches the cell leave behind (no effect unless magnitude > 1e4 L)
    let neg_area = 1e-9 * l.powi(st.dim as i32 - 1) + 256. * f64::EPSILON * mag * l.powi(st.dim as i32 - 2);
    Tol { pos: slack * mag, neg_area, l, mag, dim: st.dim, slack }
}

pub fn replay_text(check: &str, st: &State, extra: &[(&str, String)]) -> String {
    let mut s = format!("check={}\n", check);
    if cfg!(debug_assertions) {
        // found by the build with debug assertions on: `./check replay` picks the same build
        s.push_str("build=debug-assertions\n");
    }
    for (k, v) in extra {
        s.push_str(&format!("{}={}\n", k, v));
    }
    s.push_str(&st.to_replay());
    s
}

pub fn build_integrator(st: &State, mask: Option<&[bool]>) -> Result<VoronoiIntegrator<WithoutFaces>, PanicInfo> {
    guarded(|| VoronoiIntegrator::build(&st.gens, mask, st.anchor, st.width, st.dimensionality(), st.periodic))
}

pub fn build_voronoi(st: &State, mask: Option<&[bool]>) -> Result<Voronoi, PanicInfo> {
    guarded(|| match mask {
        None => Voronoi::build(&st.gens, st.anchor, st.width, st.dimensionality(), st.periodic),
        Some(m) => Voronoi::build_partial(&st.gens, m, st.anchor, st.width, st.dimensionality(), st.periodic),
    })
}

/// Bitwise digest of everything `Voronoi::build` returns for the state (or the panic message).
pub fn build_digest(st: &State) -> Result<u64, String> {
    match build_voronoi(st, None) {
        Err(p) => Err(p.msg),
        Ok(v) => {
            let mut h = Fnv::new();
            for c in v.cells() {
                h.u64(c.volume().to_bits());
                h.u64(c.safety_radius().to_bits());
                for b in vec_bits(c.centroid()) {
                    h.u64(b);
                }
                h.u64(c.face_count() as u64);
            }
            for f in v.faces() {
                h.u64(f.left() as u64);
                h.u64(f.right().map_or(u64::MAX, |r| r as u64));
                h.u64(f.area().to_bits());
                for b in vec_bits(f.centroid()) {
                    h.u64(b);
                }
                for b in vec_bits(f.shift().unwrap_or(DVec3::ZERO)) {
                    h.u64(b);
                }
            }
            for &i in v.cell_face_connections() {
                h.u64(i as u64);
            }
            Ok(h.finish())
        }
    }
}

/// Call histories as transitions of the state space (every E1 check): the state is built, then - on the same thread,
/// nothing in between - the library is asked something *else about the same generators*, then the state is built again;
/// the two builds of the state must be bitwise identical. The interposed calls are the ones that collide with the state
/// on anything a memo could be keyed by: the same slice under the next lower dimensionality (when the projections stay
/// distinct), the same positions in reversed order, the same slice under a single-cell mask (direct and integrator
/// route), the same slice with the first generator moved to the centre of gravity of the others.
pub fn history_differential(e: &mut Eval, check: &str, st: &State) {
    let n = st.n();
    let d0 = build_digest(st);
    let mut preludes: Vec<(&'static str, Box<dyn Fn() + '_>)> = vec![];
    if st.dim >= 2 {
        let lower = st.dim - 1;
        let key = |g: DVec3| -> Vec<u64> { (0..lower).map(|k| comp(g, k).to_bits()).collect() };
        let mut keys: Vec<Vec<u64>> = st.gens.iter().map(|g| key(*g)).collect();
        keys.sort();
        keys.dedup();
        if keys.len() == n {
            preludes.push(("the same slice under the next lower dimensionality", Box::new(move || {
                let _ = guarded(|| Voronoi::build(&st.gens, st.anchor, st.width, dimensionality(lower), st.periodic));
            })));
        }
    }
    if n >= 2 {
        preludes.push(("the same positions in reversed order", Box::new(move || {
            let mut g = st.gens.clone();
            g.reverse();
            let _ = guarded(|| Voronoi::build(&g, st.anchor, st.width, st.dimensionality(), st.periodic));
        })));
        preludes.push(("the same slice under a single-cell mask", Box::new(move || {
            let mask: Vec<bool> = (0..n).map(|i| i == n - 1).collect();
            let _ = guarded(|| Voronoi::build_partial(&st.gens, &mask, st.anchor, st.width, st.dimensionality(), st.periodic));
            let _ = guarded(|| VoronoiIntegrator::build(&st.gens, Some(&mask), st.anchor, st.width, st.dimensionality(), st.periodic));
        })));
    }
    if n >= 3 {
        preludes.push(("the same slice with generator 0 moved", Box::new(move || {
            let mut g = st.gens.clone();
            let c = g[1..].iter().fold(DVec3::ZERO, |a, b| a + *b) / (n - 1) as f64;
            if g[1..].iter().all(|p| (0..st.dim).any(|k| comp(*p, k) != comp(c, k))) {
                let keep = g[0];
                g[0] = c;
                for k in st.dim..3 {
                    set_comp(&mut g[0], k, comp(keep, k));
                }
                let _ = guarded(|| Voronoi::build(&g, st.anchor, st.width, st.dimensionality(), st.periodic));
            }
        })));
    }
    for (what, p) in preludes {
        p();
        e.transitions += 1;
        let d1 = build_digest(st);
        if d1 != d0 {
            e.issue(
                "result-depends-on-call-history",
                format!("{}|after: {}", st.id, what),
                format!("Voronoi::build of the state gives {:?} when called first and {:?} when called right after a build of {}", d0, d1, what),
                replay_text(check, st, &[]),
            );
        }
    }
}

pub fn panic_issue(e: &mut Eval, check: &str, st: &State, case: &str, extra: &[(&str, String)], p: &PanicInfo, what: &str) {
    e.issue(
        format!("panic:{}", p.msg.chars().take(70).collect::<String>()),
        case.to_string(),
        format!("{} panicked at {}: {}", what, p.site, p.msg),
        replay_text(check, st, extra),
    );
}

pub fn exact_calls_thread() -> u64 {
    meshless_voronoi::verif::exact_calls_thread()
}

/// Does the wall `w` (0..5) of a reflective box pass through generator i (within tolerance)?
pub fn wall_through_generator(st: &State, i: usize, w: u8, t: &Tol) -> bool {
    // The structural selector of R9 applies to 3D cells. In 1D the defect never shows. In 2D it shows on some inputs
    // only (offset / non-unit boxes): the quick tier lists those (clause, state) pairs explicitly
    // (known_findings/*_R9_2D.txt) and judges every other 2D wall face; the thorough tier enumerates hundreds of
    // thousands of such pairs (every input order x every mask), so there the selector covers 2D as well.
    if st.dim < 2 || (st.dim == 2 && !thorough_tier()) {
        return false;
    }
    let ax = (w / 2) as usize;
    if st.periodic && ax < st.dim {
        return false;
    }
    let a = st.norm_anchor();
    let wd = st.norm_width();
    let g = st.gen_loc(i);
    let coord = if w % 2 == 0 { comp(a, ax) } else { comp(a, ax) + comp(wd, ax) };
    (comp(g, ax) - coord).abs() <= t.pos
}

/// Per cell: the faces the library reports through the non-symmetric face integrals, by key.
pub struct LibCellFaces {
    pub by_key: BTreeMap<FaceKey, Vec<FaceRec>>,
    pub key_errors: Vec<String>,
}

pub fn lib_cell_faces(st: &State, recs: &[meshless_voronoi::integrals::FaceIntegrator<FaceRec>], n: usize) -> Vec<LibCellFaces> {
    let mut out: Vec<LibCellFaces> = (0..n).map(|_| LibCellFaces { by_key: BTreeMap::new(), key_errors: vec![] }).collect();
    for r in recs {
        let left = r.left();
        if left >= n {
            continue;
        }
        let rec = r.integral().clone();
        match face_key(st, r.right(), r.shift(), -rec.n_in) {
            Ok(k) => out[left].by_key.entry(k).or_default().push(rec),
            Err(e) => out[left].key_errors.push(e),
        }
    }
    out
}

/// Minimal |det| of the plane triples of the vertices of a library cell (conditioning).
pub fn sigma_min<M: meshless_voronoi::ConvexCellMarker>(cell: &meshless_voronoi::ConvexCell<M>) -> f64 {
    let mut s = 1.0f64;
    for v in &cell.vertices {
        let n0 = cell.clipping_planes[v.dual[0]].plane.n;
        let n1 = cell.clipping_planes[v.dual[1]].plane.n;
        let n2 = cell.clipping_planes[v.dual[2]].plane.n;
        let d = n0.dot(n1.cross(n2)).abs();
        if d < s {
            s = d;
        }
    }
    s.max(1e-13)
}

/// Position tolerance for a cell whose worst vertex conditioning is `sigma`: the generous 1e-9 * magnitude
/// for well conditioned cells, 256 u / sigma * magnitude when that is larger (rounding amplified by conditioning).
pub fn pos_for(t: &Tol, sigma: f64) -> f64 {
    t.mag * t.slack.max(5.7e-14 / sigma.max(1e-13))
}

/// Conditioning of every constructed cell (1.0 for unconstructed ones).
pub fn sigmas<M: meshless_voronoi::ConvexCellMarker + 'static>(integ: &VoronoiIntegrator<M>, n: usize) -> Vec<f64> {
    (0..n).map(|i| integ.get_cell_at(i).map(sigma_min).unwrap_or(1.0)).collect()
}

pub fn sigma_all(s: &[f64]) -> f64 {
    s.iter().copied().fold(1.0, f64::min)
}

pub struct CellTol {
    pub pos: f64,
    pub vol: f64,
    pub centroid: f64,
    pub compare_centroid: bool,
}

pub fn cell_tol(t: &Tol, oc: &OCell, sigma: f64) -> CellTol {
    let pos = pos_for(t, sigma);
    // absolute floor: signed tetrahedra of the size of the cell cancel, in global coordinates
    let vol = pos * oc.surface + 1e-12 * oc.volume.abs() + 1e-13 * t.l.powi(t.dim as i32);
    let diam = 2. * oc.max_vertex_dist;
    let centroid = 4. * pos * (1. + oc.surface * diam / oc.volume.abs().max(1e-300));
    CellTol { pos, vol, centroid, compare_centroid: oc.volume > 100. * vol }
}

pub struct FaceTol {
    pub area: f64,
    pub centroid: f64,
    pub compare_centroid: bool,
    pub negligible: bool,
}

pub fn face_tol(t: &Tol, of: &OFace, pos: f64) -> FaceTol {
    let area = pos * of.perimeter + 1e-12 * of.area.abs() + 1e-13 * t.l.powi(t.dim as i32 - 1);
    // the face centroid is a quotient (first moment / area) of sums of signed triangles that span from the projection of
    // the generator to the face: their rounding error is absolute, about u L^d, whatever the size of the face, so the
    // centroid of a tiny face carries an error of u L^d / area
    let centroid = 4. * pos * (1. + of.perimeter * of.perimeter * 0.5 / of.area.abs().max(1e-300)) + 1e-13 * t.l.powi(t.dim as i32) / of.area.abs().max(1e-300);
    FaceTol { area, centroid, compare_centroid: of.area > 100. * area, negligible: of.area <= t.neg_area + area }
}

/// Compare one library cell (integrator route) with the oracle cell. `what` selects clause groups.
#[allow(clippy::too_many_arguments)]
pub fn compare_cell_with_oracle(
    e: &mut Eval,
    check: &str,
    st: &State,
    case: &str,
    extra: &[(&str, String)],
    i: usize,
    oc: &OCell,
    t: &Tol,
    lib_volume: f64,
    lib_centroid: DVec3,
    lib_faces: Option<&LibCellFaces>,
    lib_vertices: Option<(&[DVec3], f64)>,
) {
    let lib_planes: Option<&[(DVec3, DVec3)]> = None;
    let _ = lib_planes;
    let sigma = lib_vertices.map(|v| v.1).unwrap_or(1.0);
    let lib_vertices = lib_vertices.filter(|v| !v.0.is_empty());
    let ct = cell_tol(t, oc, sigma);
    let rp = || replay_text(check, st, extra);
    if !(lib_volume.is_finite() && all_finite(lib_centroid)) {
        e.issue("non-finite", case, format!("cell {}: volume {} centroid {}", i, lib_volume, fmt_vec(lib_centroid)), rp());
        return;
    }
    if (lib_volume - oc.volume).abs() > ct.vol {
        e.issue(
            "volume-vs-oracle",
            case,
            format!("cell {}: library volume {:e} oracle {:e} (tol {:e})", i, lib_volume, oc.volume, ct.vol),
            rp(),
        );
    }
    if ct.compare_centroid && lib_centroid.distance(oc.centroid) > ct.centroid {
        e.issue(
            "centroid-vs-oracle",
            case,
            format!("cell {}: library centroid {} oracle {} (tol {:e})", i, fmt_vec(lib_centroid), fmt_vec(oc.centroid), ct.centroid),
            rp(),
        );
    }
    if let Some((verts, sig)) = lib_vertices {
        let vt = 10. * pos_for(t, sig);
        // (1) every library vertex lies in the (tolerance-fattened) oracle polytope
        'lv: for v in verts {
            for of in &oc.faces {
                let sdist = of.normal.dot(*v - of.verts[0]);
                if !(sdist <= vt) {
                    e.issue("vertex-outside-oracle-cell", case, format!("cell {}: library vertex {} lies {:e} outside oracle face {} (tol {:e})", i, fmt_vec(*v), sdist, of.key.describe(), vt), rp());
                    break 'lv;
                }
            }
        }
        // (2) every *essential* oracle vertex (a real corner: not collinear with its polygon neighbours in
        // every non-negligible face, which is what the middle vertex of a sliver is) has a library vertex nearby
        for u in &oc.verts {
            let d = verts.iter().map(|v| u.distance(*v)).fold(f64::INFINITY, f64::min);
            if d <= vt {
                continue;
            }
            let mut essential = false;
            for of in &oc.faces {
                let m = of.verts.len();
                if of.area <= t.neg_area + vt * of.perimeter {
                    continue;
                }
                for k in 0..m {
                    if of.verts[k].distance(*u) <= 1e-13 * t.mag + 1e-12 * u.distance(oc.gen) {
                        let (a, b) = (of.verts[(k + m - 1) % m], of.verts[(k + 1) % m]);
                        let ab = b - a;
                        let tt = if ab.length_squared() > 0. { ((*u - a).dot(ab) / ab.length_squared()).clamp(0., 1.) } else { 0. };
                        if (a + ab * tt).distance(*u) > vt {
                            essential = true;
                        }
                    }
                }
            }
            if essential {
                e.issue("oracle-vertex-missing", case, format!("cell {}: oracle corner {} is {:e} from the nearest library vertex (tol {:e})", i, fmt_vec(*u), d, vt), rp());
                break;
            }
        }
    }
    if let Some(lf) = lib_faces {
        for err in &lf.key_errors {
            e.issue("face-identity", case, format!("cell {}: {}", i, err), rp());
        }
        // oracle -> library
        for of in &oc.faces {
            if let FaceKey::Far(_) = of.key {
                // cannot happen for valid input: the cell is bounded by its own images
                if of.area > t.neg_area {
                    e.issue("oracle-unbounded", case, format!("cell {}: oracle cell touches the artificial far wall", i), rp());
                }
                continue;
            }
            if !face_is_active(st.dim, of) {
                if lf.by_key.contains_key(&of.key) {
                    e.issue("inactive-axis-face-reported", case, format!("cell {}: face {} orthogonal to the active subspace is reported", i, of.key.describe()), rp());
                }
                continue;
            }
            let ft = face_tol(t, of, ct.pos);
            let r9 = matches!(of.key, FaceKey::Wall(w) if wall_through_generator(st, i, w, t));
            match lf.by_key.get(&of.key) {
                None => {
                    if !ft.negligible {
                        e.issue("face-missing", case, format!("cell {}: oracle face {} (area {:e}) is not reported by the library", i, of.key.describe(), of.area), rp());
                    }
                }
                Some(list) => {
                    if list.len() > 1 {
                        e.issue("face-duplicate", case, format!("cell {}: face {} reported {} times", i, of.key.describe(), list.len()), rp());
                    }
                    let r = &list[0];
                    let bad_area = !((r.area - of.area).abs() <= ft.area);
                    let bad_centroid = !ft.negligible && ft.compare_centroid && !(r.centroid.distance(of.centroid) <= ft.centroid);
                    if bad_area || bad_centroid {
                        if r9 {
                            e.excuse(R9_CLAUSE);
                        } else if bad_area {
                            e.issue("face-area-vs-oracle", case, format!("cell {}: face {} library area {:e} oracle {:e} (tol {:e})", i, of.key.describe(), r.area, of.area, ft.area), rp());
                        } else {
                            e.issue(
                                "face-centroid-vs-oracle",
                                case,
                                format!("cell {}: face {} library centroid {} oracle {} (tol {:e})", i, of.key.describe(), fmt_vec(r.centroid), fmt_vec(of.centroid), ft.centroid),
                                rp(),
                            );
                        }
                    }
                }
            }
        }
        // library -> oracle (spurious)
        for (k, list) in &lf.by_key {
            let of = oc.faces.iter().find(|f| f.key == *k);
            if of.is_none() {
                let r = &list[0];
                let r9 = matches!(k, FaceKey::Wall(w) if wall_through_generator(st, i, *w, t));
                let lim = t.neg_area + ct.pos * 4. * t.l.powi((st.dim as i32 - 2).max(0));
                if !(r.area.abs() <= lim) {
                    if r9 {
                        e.excuse(R9_CLAUSE);
                    } else {
                        e.issue("face-spurious", case, format!("cell {}: library reports face {} with area {:e}; the oracle cell has no such face", i, k.describe(), r.area), rp());
                    }
                }
            }
        }
    }
}

/// Signature of a tessellation's combinatorial shape (for distinct-outcome counting).
pub fn shape_signature(ocells: &[OCell], t: &Tol) -> (u64, bool) {
    let mut h = Fnv::new();
    let mut nontrivial = false;
    for oc in ocells {
        let mut keys: Vec<String> = oc.faces.iter().filter(|f| f.area > t.neg_area).map(|f| f.key.describe()).collect();
        keys.sort();
        h.u64(keys.len() as u64);
        for k in keys {
            h.str(&k);
        }
        h.u64(oc.verts.len() as u64);
        if oc.volume > 0. {
            nontrivial = true;
        }
    }
    (h.finish(), nontrivial)
}

pub fn ocells(st: &State) -> Vec<OCell> {
    (0..st.n()).map(|i| oracle_cell(st, i)).collect()
}

pub fn lib_vertices<M: meshless_voronoi::ConvexCellMarker>(cell: &meshless_voronoi::ConvexCell<M>) -> Vec<DVec3> {
    cell.vertices.iter().map(|v| v.loc).collect()
}

pub fn _touch() {
    let _ = AreaCentroidIntegral::init();
    let _ = VolumeCentroidIntegral::init();
}
