//! C17 (neighbour candidates complete and ordered), C19 (geometry helpers), C20 (knn, bounding spheres).

use crate::alpha::*;
use crate::obs::*;
use crate::report::*;
use crate::tess::*;
use crate::util::*;
use glam::DVec3;
use meshless_voronoi::geometry::{intersect_planes, signed_area_tri, signed_volume_tet, Plane, Sphere};
use meshless_voronoi::verif;
use std::collections::BTreeMap;

// ---------------------------------------------------------------------------------------------
// C17

pub fn eval_c17(st: &State) -> Eval {
    let mut e = Eval::default();
    let check = "c17";
    let n = st.n();
    let w = st.norm_width();
    let dim = st.dim;
    let mut h = Fnv::new();
    // exact arithmetic on the dyadic alphabets: strict order there, coordinate-scaled tolerance elsewhere
    let dyadic = {
        let a = st.norm_anchor();
        let is_dy = |x: f64| (x * 1024.).fract() == 0. && x.abs() < 1e6;
        let mut ok = is_dy(a.x) && is_dy(a.y) && is_dy(a.z) && is_dy(w.x) && is_dy(w.y) && is_dy(w.z);
        for i in 0..n {
            let g = st.gen_loc(i);
            ok = ok && is_dy(g.x) && is_dy(g.y) && is_dy(g.z);
        }
        ok
    };
    let t = tol(st);
    // large states: a committed subset of the query generators (the first 8, every 97th, the last 8: the isolated ones)
    let queries: Vec<usize> = if n > 400 { (0..n).filter(|&q| q < 8 || q % 97 == 0 || q + 8 >= n).collect() } else { (0..n).collect() };
    for q in queries {
        let case = format!("{}|query={}", st.id, q);
        let extra = [("query", q.to_string())];
        let rp = || replay_text(check, st, &extra);
        let seq = match guarded(|| verif::nn_sequence(&st.gens, q, w, st.dimensionality(), st.periodic)) {
            Ok(s) => s,
            Err(p) => {
                panic_issue(&mut e, check, st, &case, &extra, &p, "neighbour iterator");
                continue;
            }
        };
        e.impl_runs += 1;
        e.transitions += seq.len() as u64;
        let gq = st.gen_loc(q);
        // first item: the generator itself, without shift
        match seq.first() {
            Some((i, None)) if *i == q => {}
            other => {
                e.issue("first-item-is-not-self", &case, format!("first item {:?}", other.map(|o| (o.0, o.1.map(fmt_vec)))), rp());
            }
        }
        // completeness and uniqueness
        let mut seen: BTreeMap<(usize, [i8; 3]), usize> = BTreeMap::new();
        let mut dists: Vec<f64> = vec![];
        for (pos, (i, shift)) in seq.iter().enumerate() {
            if *i >= n {
                e.issue("index-out-of-range", &case, format!("item {} has id {}", pos, i), rp());
                continue;
            }
            match shift_key(st, *shift) {
                Ok(k) => {
                    *seen.entry((*i, k)).or_insert(0) += 1;
                }
                Err(err) => e.issue("shift-not-a-lattice-vector", &case, format!("item {}: {}", pos, err), rp()),
            }
            let p = st.gen_loc(*i) + shift.unwrap_or(DVec3::ZERO);
            // same association as a user would use: neighbour position = generator + shift
            dists.push(p.distance_squared(gq));
        }
        let shifts: Vec<[i8; 3]> = if st.periodic {
            let r = |a: bool| if a { -1i8..=1 } else { 0i8..=0 };
            let mut v = vec![];
            for x in r(true) {
                for y in r(dim >= 2) {
                    for z in r(dim >= 3) {
                        v.push([x, y, z]);
                    }
                }
            }
            v
        } else {
            vec![[0, 0, 0]]
        };
        for i in 0..n {
            for s in &shifts {
                let c = seen.get(&(i, *s)).copied().unwrap_or(0);
                if c != 1 {
                    e.issue(
                        if c == 0 { "candidate-missing" } else { "candidate-visited-twice" },
                        &case,
                        format!("generator {} with shift {:?} is visited {} times ({} items in total, expected {})", i, s, c, seq.len(), n * shifts.len()),
                        rp(),
                    );
                }
            }
        }
        if seq.len() != n * shifts.len() {
            e.issue("sequence-length", &case, format!("{} items, expected {}", seq.len(), n * shifts.len()), rp());
        }
        // order: non-decreasing distance
        for k in 1..dists.len() {
            let tau = if dyadic { 0. } else { 32. * 2.2e-16 * t.mag * (dists[k].sqrt() + t.l) * 2. };
            if dists[k] + tau < dists[k - 1] {
                e.issue(
                    "order-not-by-distance",
                    &case,
                    format!("item {} (generator {}, d^2 = {:e}) comes after item {} (generator {}, d^2 = {:e})", k, seq[k].0, dists[k], k - 1, seq[k - 1].0, dists[k - 1]),
                    rp(),
                );
                break;
            }
        }
        h.u64(seq.len() as u64);
        // how many equidistant groups?
        let mut groups = 0u64;
        for k in 1..dists.len() {
            if dists[k] == dists[k - 1] {
                groups += 1;
            }
        }
        h.u64(groups);
    }
    e.sig = h.finish();
    e.nontrivial = n >= 2 || st.periodic;
    e
}

/// C17 families: all subsets of small lattices (so that r-tree inner nodes and many equidistant candidates occur).
pub fn c17_families(thorough: bool) -> Vec<(String, Vec<State>)> {
    let mut fams = vec![];
    // the three ordinary boxes and the two extreme length scales (2^-40, 2^20): shifts and distances must scale
    let boxes: Vec<BoxSpec> = box_menu(false).into_iter().chain(scaled_boxes()).collect();
    for b in &boxes {
        for periodic in [false, true] {
            // 1D: all subsets of L1
            let pool = lattice_points(L1, b, 1, periodic);
            let sts: Vec<State> = subsets_upto(pool.len(), pool.len()).iter().map(|s| make_state(1, periodic, b, "L1", &pool, s)).collect();
            fams.push((format!("1{}|{}|L1 all subsets", if periodic { "P" } else { "R" }, b.name), sts));
            // 2D: all subsets of a 3x3 (quick) / 4x4 (thorough) lattice
            let lat = if thorough { Lattice { name: "L2q", m: if periodic { 4 } else { 3 } } } else { Lattice { name: "L2t", m: if periodic { 3 } else { 2 } } };
            let pool = lattice_points(lat, b, 2, periodic);
            let sts: Vec<State> = subsets_upto(pool.len(), pool.len()).iter().map(|s| make_state(2, periodic, b, lat.name, &pool, s)).collect();
            fams.push((format!("2{}|{}|{} all {} subsets", if periodic { "P" } else { "R" }, b.name, lat.name, sts.len()), sts));
            // 3D: L3a up to K, 2x2x3 lattice all subsets
            let pool = lattice_points(L3A, b, 3, periodic);
            let k = if thorough { 4 } else { 3 };
            let sts: Vec<State> = subsets_upto(pool.len(), k).iter().map(|s| make_state(3, periodic, b, "L3a", &pool, s)).collect();
            fams.push((format!("3{}|{}|L3a K<={}", if periodic { "P" } else { "R" }, b.name, k), sts));
            // generic pool
            for dim in 1..=3 {
                let pool = generic_points(b, dim);
                let k = if thorough { pool.len() } else { 4 };
                let sts: Vec<State> = subsets_upto(pool.len(), k).iter().map(|s| make_state(dim, periodic, b, "G", &pool, s)).collect();
                fams.push((format!("{}{}|{}|G K<={}", dim, if periodic { "P" } else { "R" }, b.name, k), sts));
            }
            // perfect lattices 4^3 / 5^3 (thorough) with <= 1 generator removed: many equidistant candidates, inner nodes
            for m in if thorough { vec![4usize, 5] } else { vec![4usize] } {
                let mut pts = vec![];
                for i in 0..m {
                    for j in 0..m {
                        for k in 0..m {
                            pts.push(b.anchor + v3(i as f64 + 0.5, j as f64 + 0.5, k as f64 + 0.5) / m as f64 * b.width);
                        }
                    }
                }
                let all: Vec<usize> = (0..pts.len()).collect();
                let name = format!("L{}c", m * m * m);
                let mut sts = vec![make_state(3, periodic, b, &name, &pts, &all)];
                for r in 0..pts.len() {
                    let sub: Vec<usize> = (0..pts.len()).filter(|&i| i != r).collect();
                    sts.push(make_state(3, periodic, b, &name, &pts, &sub));
                }
                fams.push((format!("3{}|{}|{} with <= 1 removed", if periodic { "P" } else { "R" }, b.name, name), sts));
            }
        }
    }
    // medium / large pools and big-cell states (r-tree depth > 2, hundreds of candidates, many nearly equidistant)
    for (desc, sts) in medium_families(thorough, &[1, 2, 3], &[false, true]) {
        let sts: Vec<State> = if thorough { sts } else { sts.into_iter().take(6).collect() };
        fams.push((desc, sts));
    }
    fams.push(("3R big cells".to_string(), bigcell_family(thorough)));
    fams.push(("large states (1000-2000 generators: uniform, dense cluster + isolated generators)".to_string(), large_states(thorough)));
    fams
}

// ---------------------------------------------------------------------------------------------
// C19

fn ivecs(r: i64) -> Vec<[i64; 3]> {
    let mut v = vec![];
    for x in -r..=r {
        for y in -r..=r {
            for z in -r..=r {
                v.push([x, y, z]);
            }
        }
    }
    v
}

fn dv(p: [i64; 3]) -> DVec3 {
    v3(p[0] as f64, p[1] as f64, p[2] as f64)
}

fn idet(a: [i64; 3], b: [i64; 3], c: [i64; 3]) -> i64 {
    a[0] * (b[1] * c[2] - b[2] * c[1]) - a[1] * (b[0] * c[2] - b[2] * c[0]) + a[2] * (b[0] * c[1] - b[1] * c[0])
}

fn idot(a: [i64; 3], b: [i64; 3]) -> i64 {
    a[0] * b[0] + a[1] * b[1] + a[2] * b[2]
}

fn icross(a: [i64; 3], b: [i64; 3]) -> [i64; 3] {
    [a[1] * b[2] - a[2] * b[1], a[2] * b[0] - a[0] * b[2], a[0] * b[1] - a[1] * b[0]]
}

/// One work item of C19: a first normal (index into the normal alphabet) or a named sub-family.
pub fn eval_c19(item: &(String, usize, bool)) -> Eval {
    let (kind, idx, thorough) = item;
    let mut e = Eval::default();
    let mut h = Fnv::new();
    let normals: Vec<[i64; 3]> = ivecs(2).into_iter().filter(|v| *v != [0, 0, 0]).collect();
    let points = ivecs(if *thorough { 2 } else { 1 });
    let rp = |what: String| format!("check=c19\nwhat={}\n", what);
    let scales = [1.0f64, 1.0 / 1048576.0, 1048576.0];
    match kind.as_str() {
        "planes" => {
            let n0 = normals[*idx];
            // intersect_planes over all (n1, n2) with det != 0, plane points from a small menu
            for (i1, n1) in normals.iter().enumerate() {
                for n2 in normals.iter().skip(i1 + 1) {
                    let det = idet(n0, *n1, *n2);
                    if det == 0 {
                        continue;
                    }
                    for (pi, pm) in [([1, 0, -1], [0, 2, 1], [-2, 1, 0]), ([0, 0, 0], [1, 1, 1], [2, -1, 0])].iter().enumerate() {
                        for normalise in [false, true] {
                            let mk = |n: [i64; 3], p: [i64; 3]| {
                                let nn = dv(n);
                                Plane::new(if normalise { nn.normalize() } else { nn }, dv(p))
                            };
                            let (p0, p1, p2) = (mk(n0, pm.0), mk(*n1, pm.1), mk(*n2, pm.2));
                            let case = format!("intersect_planes n={:?},{:?},{:?} pointset={} normalised={}", n0, n1, n2, pi, normalise);
                            let x = match guarded(|| intersect_planes(&p0, &p1, &p2)) {
                                Ok(x) => x,
                                Err(p) => {
                                    e.issue("panic", &case, p.msg, rp(case.clone()));
                                    continue;
                                }
                            };
                            e.impl_runs += 1;
                            // exact solution by Cramer's rule: x = sum d_i (n_j x n_k) / det, d_i = n_i . p_i
                            let d = [idot(n0, pm.0), idot(*n1, pm.1), idot(*n2, pm.2)];
                            let c0 = icross(*n1, *n2);
                            let c1 = icross(*n2, n0);
                            let c2 = icross(n0, *n1);
                            let ex = v3(
                                (d[0] * c0[0] + d[1] * c1[0] + d[2] * c2[0]) as f64,
                                (d[0] * c0[1] + d[1] * c1[1] + d[2] * c2[1]) as f64,
                                (d[0] * c0[2] + d[1] * c1[2] + d[2] * c2[2]) as f64,
                            ) / det as f64;
                            if !(x.distance(ex) <= 1e-11 * (1. + ex.length())) {
                                e.issue("intersect_planes", &case, format!("result {} exact {}", fmt_vec(x), fmt_vec(ex)), rp(case.clone()));
                            }
                            for (pl, nm) in [(&p0, "p0"), (&p1, "p1"), (&p2, "p2")] {
                                let r = pl.n.dot(x - pl.p).abs() / pl.n.length();
                                if !(r <= 1e-11 * (1. + x.length())) {
                                    e.issue("intersection-not-on-plane", &case, format!("distance to {} = {:e}", nm, r), rp(case.clone()));
                                }
                            }
                            h.f64(x.x);
                        }
                    }
                }
            }
            // projections with this normal
            for s in scales {
                for nscale in [1.0, 0.5, 3.0] {
                    for pp in &points {
                        for q in &points {
                            let n = dv(n0) * nscale;
                            let pl = Plane::new(n, dv(*pp) * s);
                            let qq = dv(*q) * s;
                            let case = format!("project_onto n={:?}x{} p={:?} q={:?} scale={:e}", n0, nscale, pp, q, s);
                            let x = pl.project_onto(qq);
                            e.impl_runs += 1;
                            let tolx = 1e-12 * s * 8.;
                            // lands on the plane
                            if !((x - pl.p).dot(n).abs() / n.length() <= tolx) {
                                e.issue("projection-not-on-plane", &case, format!("result {} is {:e} off the plane", fmt_vec(x), (x - pl.p).dot(n).abs() / n.length()), rp(case.clone()));
                            }
                            // along the normal
                            if !((x - qq).cross(n).length() / n.length() <= tolx) {
                                e.issue("projection-not-along-normal", &case, format!("displacement {}", fmt_vec(x - qq)), rp(case.clone()));
                            }
                            // idempotent
                            if !(pl.project_onto(x).distance(x) <= tolx) {
                                e.issue("projection-not-idempotent", &case, String::new(), rp(case.clone()));
                            }
                            // exact value
                            let nn = idot(n0, n0) as f64;
                            let tt = idot(n0, [pp[0] - q[0], pp[1] - q[1], pp[2] - q[2]]) as f64 / nn;
                            let ex = (dv(*q) + dv(n0) * tt) * s;
                            if !(x.distance(ex) <= tolx) {
                                e.issue("projection-value", &case, format!("result {} exact {}", fmt_vec(x), fmt_vec(ex)), rp(case.clone()));
                            }
                            e.transitions += 1;
                        }
                    }
                }
            }
            // projection onto the intersection line of two planes
            for n1 in &normals {
                let cr = icross(n0, *n1);
                if cr == [0, 0, 0] {
                    continue;
                }
                for q in &points {
                    for (pa, pb) in [([0, 0, 0], [0, 0, 0]), ([1, -1, 2], [0, 2, 1])] {
                        let a = Plane::new(dv(n0), dv(pa));
                        let b = Plane::new(dv(*n1), dv(pb));
                        let qq = dv(*q);
                        let case = format!("project_onto_intersection n={:?},{:?} p={:?},{:?} q={:?}", n0, n1, pa, pb, q);
                        let x = match guarded(|| a.project_onto_intersection(&b, qq)) {
                            Ok(x) => x,
                            Err(p) => {
                                e.issue("panic", &case, p.msg, rp(case.clone()));
                                continue;
                            }
                        };
                        e.impl_runs += 1;
                        let tolx = 1e-11 * (1. + x.length());
                        if !((x - a.p).dot(a.n).abs() / a.n.length() <= tolx && (x - b.p).dot(b.n).abs() / b.n.length() <= tolx) {
                            e.issue("line-projection-not-on-both-planes", &case, format!("result {}", fmt_vec(x)), rp(case.clone()));
                        }
                        // closest point of the line: displacement orthogonal to the line direction
                        let dir = dv(cr);
                        if !((x - qq).dot(dir).abs() / dir.length() <= tolx) {
                            e.issue("line-projection-not-orthogonal", &case, format!("(x - q) . direction = {:e}", (x - qq).dot(dir)), rp(case.clone()));
                        }
                        if !(a.project_onto_intersection(&b, x).distance(x) <= tolx) {
                            e.issue("line-projection-not-idempotent", &case, String::new(), rp(case.clone()));
                        }
                        e.transitions += 1;
                    }
                }
            }
        }
        "measures" => {
            // signed measures on all tuples with first vertex = points3[idx]
            let p3 = {
                let mut v = vec![];
                for x in 0..3 {
                    for y in 0..3 {
                        for z in 0..3 {
                            v.push([x, y, z]);
                        }
                    }
                }
                v
            };
            let a = p3[*idx];
            for &b in &p3 {
                for &c in &p3 {
                    for &d in &p3 {
                        let sub = |p: [i64; 3], q: [i64; 3]| [p[0] - q[0], p[1] - q[1], p[2] - q[2]];
                        // documented: positive if v0, v1, v2 are counter-clockwise seen from v3
                        // reference: (0,0,0),(1,0,0),(0,1,0) seen from (0,0,1) is counter-clockwise -> +1/6
                        // det(v1-v0, v2-v0, v3-v0) = 1 for that tuple
                        let det = idet(sub(b, a), sub(c, a), sub(d, a));
                        let case = format!("signed_volume_tet {:?} {:?} {:?} {:?}", a, b, c, d);
                        for s in scales {
                            let v = signed_volume_tet(dv(a) * s, dv(b) * s, dv(c) * s, dv(d) * s);
                            e.impl_runs += 1;
                            let ex = det as f64 / 6. * s * s * s;
                            if !((v - ex).abs() <= 1e-12 * ex.abs() + 1e-300) {
                                e.issue("signed_volume_tet-value", &case, format!("scale {:e}: {:e} expected {:e}", s, v, ex), rp(case.clone()));
                            }
                        }
                        // antisymmetry under vertex swaps
                        let v0 = signed_volume_tet(dv(a), dv(b), dv(c), dv(d));
                        let swaps = [
                            signed_volume_tet(dv(b), dv(a), dv(c), dv(d)),
                            signed_volume_tet(dv(a), dv(c), dv(b), dv(d)),
                            signed_volume_tet(dv(a), dv(b), dv(d), dv(c)),
                            signed_volume_tet(dv(d), dv(b), dv(c), dv(a)),
                        ];
                        for (k, sw) in swaps.iter().enumerate() {
                            if !((sw + v0).abs() <= 1e-12) {
                                e.issue("signed_volume_tet-antisymmetry", &case, format!("swap {}: {:e} vs {:e}", k, sw, v0), rp(case.clone()));
                            }
                        }
                        // signed area of (a, b, c) with top d
                        let cr = icross(sub(b, a), sub(c, a));
                        let side = idot(sub(d, a), cr);
                        if side != 0 {
                            let case = format!("signed_area_tri {:?} {:?} {:?} top {:?}", a, b, c, d);
                            let ar = signed_area_tri(dv(a), dv(b), dv(c), dv(d));
                            e.impl_runs += 1;
                            let ex = 0.5 * (idot(cr, cr) as f64).sqrt() * side.signum() as f64;
                            if !((ar - ex).abs() <= 1e-12 * ex.abs()) {
                                e.issue("signed_area_tri-value", &case, format!("{:e} expected {:e}", ar, ex), rp(case.clone()));
                            }
                            let sw = signed_area_tri(dv(a), dv(c), dv(b), dv(d));
                            if !((sw + ar).abs() <= 1e-12) {
                                e.issue("signed_area_tri-antisymmetry", &case, format!("{:e} vs {:e}", sw, ar), rp(case.clone()));
                            }
                        }
                        e.transitions += 1;
                        h.u64((det + 100) as u64);
                    }
                }
            }
        }
        "spheres" => {
            let p3 = {
                let mut v = vec![];
                for x in 0..3 {
                    for y in 0..3 {
                        for z in 0..3 {
                            v.push([x, y, z]);
                        }
                    }
                }
                v
            };
            let a = p3[*idx];
            let on = |s: &Sphere, p: DVec3, scale: f64| (p.distance(s.center) - s.radius).abs() <= 1e-10 * scale * (1. + s.radius / scale);
            for s in scales {
                for off in [DVec3::ZERO, v3(7., -3., 11.)] {
                    let em = |p: [i64; 3]| (dv(p) + off) * s;
                    for &b in &p3 {
                        if b == a {
                            continue;
                        }
                        // two points
                        let case = format!("from_two_points {:?} {:?} scale {:e} offset {}", a, b, s, fmt_vec(off));
                        let sp = Sphere::from_two_points(em(a), em(b));
                        e.impl_runs += 1;
                        if !(on(&sp, em(a), s) && on(&sp, em(b), s) && sp.center.distance(0.5 * (em(a) + em(b))) <= 1e-12 * s * 20.) {
                            e.issue("sphere-two-points", &case, format!("centre {} radius {:e}", fmt_vec(sp.center), sp.radius), rp(case.clone()));
                        }
                        let bp = Sphere::from_boundary_points(&[em(a), em(b)]);
                        if vec_bits(bp.center) != vec_bits(sp.center) || bp.radius.to_bits() != sp.radius.to_bits() {
                            e.issue("from_boundary_points-dispatch", &case, "2 points".to_string(), rp(case.clone()));
                        }
                        for &c in &p3 {
                            let sub = |p: [i64; 3], q: [i64; 3]| [p[0] - q[0], p[1] - q[1], p[2] - q[2]];
                            let cr = icross(sub(b, a), sub(c, a));
                            if cr == [0, 0, 0] {
                                continue;
                            }
                            let case = format!("from_three_points {:?} {:?} {:?} scale {:e} offset {}", a, b, c, s, fmt_vec(off));
                            let sp = Sphere::from_three_points(em(a), em(b), em(c));
                            e.impl_runs += 1;
                            if !(on(&sp, em(a), s) && on(&sp, em(b), s) && on(&sp, em(c), s)) {
                                e.issue("sphere-three-points-not-through-points", &case, format!("centre {} radius {:e}", fmt_vec(sp.center), sp.radius), rp(case.clone()));
                            }
                            // centre in the plane of the points
                            let nrm = dv(cr).normalize();
                            if !((sp.center - em(a)).dot(nrm).abs() <= 1e-10 * s * 20.) {
                                e.issue("sphere-three-points-centre-off-plane", &case, format!("{:e}", (sp.center - em(a)).dot(nrm)), rp(case.clone()));
                            }
                            if !*thorough && s != 1.0 {
                                continue;
                            }
                            for &d in &p3 {
                                if idet(sub(b, a), sub(c, a), sub(d, a)) == 0 {
                                    continue;
                                }
                                // large offsets amplify the cancellation in the 4x4 determinants: offset only at scale 1
                                if off != DVec3::ZERO && s != 1.0 {
                                    continue;
                                }
                                let case = format!("from_four_points {:?} {:?} {:?} {:?} scale {:e} offset {}", a, b, c, d, s, fmt_vec(off));
                                let sp = Sphere::from_four_points(em(a), em(b), em(c), em(d));
                                e.impl_runs += 1;
                                let on4 = |p: DVec3| (p.distance(sp.center) - sp.radius).abs() <= 1e-8 * s * (1. + off.length());
                                if !(on4(em(a)) && on4(em(b)) && on4(em(c)) && on4(em(d))) {
                                    e.issue("sphere-four-points-not-through-points", &case, format!("centre {} radius {:e}", fmt_vec(sp.center), sp.radius), rp(case.clone()));
                                }
                                e.transitions += 1;
                            }
                        }
                    }
                    // extend / contains: sphere centred at a with radii 1, 2; points from the lattice
                    // (radius 0: a point sphere extended by another point is the sphere on the segment between them; the
                    // point itself is left out for radius 0 - direction of a zero vector)
                    for r in [1.0f64, 2.0, 0.5, 0.0] {
                        let sp0 = Sphere::new(em(a), r * s);
                        for q in ivecs(2) {
                            if r == 0. && q == [0, 0, 0] {
                                continue;
                            }
                            let x = (dv(q) + dv(a) + off) * s;
                            let dist = dv(q).length();
                            let case = format!("extend/contains centre {:?} r {} point offset {:?} scale {:e}", a, r, q, s);
                            let cont = sp0.contains(x);
                            e.impl_runs += 1;
                            if dist <= r * (1. - 1e-9) && !cont {
                                e.issue("contains-false-for-inner-point", &case, String::new(), rp(case.clone()));
                            }
                            if dist >= r * (1. + 1e-6) && cont {
                                e.issue("contains-true-for-outer-point", &case, format!("distance {:e} radius {:e}", dist * s, r * s), rp(case.clone()));
                            }
                            let ext = sp0.clone().extend(x);
                            if dist <= r * (1. - 1e-9) {
                                if vec_bits(ext.center) != vec_bits(sp0.center) || ext.radius.to_bits() != sp0.radius.to_bits() {
                                    e.issue("extend-changes-sphere-containing-the-point", &case, String::new(), rp(case.clone()));
                                }
                            } else if dist >= r * (1. + 1e-6) {
                                // smallest sphere containing both: radius (r + dist)/2, centre on the segment, tangent inside
                                let exr = 0.5 * (r + dist) * s;
                                let exc = em(a) + dv(q) * s * ((dist - r) * 0.5 / dist);
                                if !((ext.radius - exr).abs() <= 1e-11 * exr && ext.center.distance(exc) <= 1e-11 * s * (1. + off.length() + 4.)) {
                                    e.issue("extend-not-smallest-enclosing", &case, format!("result centre {} radius {:e}; expected centre {} radius {:e}", fmt_vec(ext.center), ext.radius, fmt_vec(exc), exr), rp(case.clone()));
                                }
                            }
                            e.transitions += 1;
                            // chains: the sphere extended by x and then by a second point contains the original sphere
                            // (its centre and, for r > 0, its far side) and both points
                            if dist >= r * (1. + 1e-6) {
                                for q2 in [[2, -1, 0], [-2, 0, 1], [0, 2, 2]] {
                                    let y = (dv(q2) + dv(a) + off) * s;
                                    let chain = ext.clone().extend(y);
                                    let inside = |p: DVec3, slack: f64| p.distance(chain.center) <= chain.radius * (1. + 1e-9) + slack;
                                    let tiny = 1e-11 * s * (1. + off.length() + 4.);
                                    if !(chain.radius.is_finite() && inside(x, tiny) && inside(y, tiny) && chain.center.distance(sp0.center) + sp0.radius <= chain.radius * (1. + 1e-9) + tiny) {
                                        e.issue("extend-chain-loses-a-point", &case, format!("after extend({}) and extend({}): centre {} radius {:e}", fmt_vec(x), fmt_vec(y), fmt_vec(chain.center), chain.radius), rp(case.clone()));
                                    }
                                    e.transitions += 1;
                                }
                            }
                        }
                    }
                }
            }
            h.u64(*idx as u64);
        }
        _ => {}
    }
    if kind == "spheres" && *idx == 0 {
        // from_boundary_points: documented dispatch
        let z = Sphere::from_boundary_points(&[]);
        let o = Sphere::from_boundary_points(&[v3(1., 2., 3.)]);
        if z.radius != 0. || o.radius != 0. {
            e.issue("from_boundary_points-0-1", "from_boundary_points", "0 or 1 points must give a zero radius sphere".to_string(), rp("from_boundary_points".into()));
        }
        if guarded(|| Sphere::from_boundary_points(&[DVec3::ZERO; 5])).is_ok() {
            e.issue("from_boundary_points-5", "from_boundary_points", "5 points must be rejected".to_string(), rp("from_boundary_points".into()));
        }
    }
    e.sig = h.finish() ^ hash_str(kind);
    e.nontrivial = true;
    e
}

// ---------------------------------------------------------------------------------------------
// C20

pub fn eval_c20_knn(item: &(DVec3, DVec3, Vec<DVec3>, String)) -> Eval {
    let (anchor, width, pts, id) = item;
    let mut e = Eval::default();
    let n = pts.len();
    let mut h = Fnv::new();
    let wmin = width.x.min(width.y).min(width.z);
    // the searches of one particle set run one after the other on this thread, from many grid cells to few and back (a
    // search must not depend on the grids searched before it)
    let cws: Vec<f64> = if id.starts_with("knnfine") { vec![0.5 / wmin] } else { vec![0.3, 0.42, 0.5, 0.77, 1.0, 5.0, 1.0, 0.5, 0.3] };
    for cw in cws {
        let max_cell_width = cw * wmin;
        for k in 0..n {
            let case = format!("{}|cellwidth={}|k={}", id, cw, k);
            let rp = || {
                let mut s = format!("check=c20-knn\nanchor={}\nwidth={}\ncellwidth={}\nk={}\n", vec_hex(*anchor), vec_hex(*width), max_cell_width.to_bits(), k);
                for p in pts {
                    s.push_str(&format!("gen={}\n", vec_hex(*p)));
                }
                s
            };
            let res = match guarded(|| verif::space_knn(*anchor, *width, max_cell_width, pts, k)) {
                Ok(r) => r,
                Err(p) => {
                    e.issue("panic", &case, p.msg, rp());
                    continue;
                }
            };
            e.impl_runs += 1;
            if res.len() != n {
                e.issue("knn-result-count", &case, format!("{} rows for {} particles", res.len(), n), rp());
                continue;
            }
            for i in 0..n {
                e.transitions += 1;
                let mut all: Vec<f64> = (0..n).filter(|&j| j != i).map(|j| pts[i].distance_squared(pts[j])).collect();
                all.sort_by(|a, b| a.partial_cmp(b).unwrap());
                let row = &res[i];
                if row.len() != k {
                    e.issue("knn-row-length", &case, format!("particle {}: {} neighbours", i, row.len()), rp());
                    continue;
                }
                let mut seen = std::collections::BTreeSet::new();
                for (r, &j) in row.iter().enumerate() {
                    if j >= n || j == i || !seen.insert(j) {
                        e.issue("knn-invalid-neighbour", &case, format!("particle {}: neighbour list {:?}", i, row), rp());
                        break;
                    }
                    // compare distances, not ids (ties are not an alarm)
                    let d = pts[i].distance_squared(pts[j]);
                    if d != all[r] {
                        e.issue(
                            "knn-not-the-nearest",
                            &case,
                            format!("particle {}: neighbour #{} is {} at d^2 = {:e}, brute force gives d^2 = {:e} (list {:?})", i, r, j, d, all[r], row),
                            rp(),
                        );
                        break;
                    }
                }
                h.u64(k as u64);
            }
        }
    }
    e.sig = h.finish();
    e.nontrivial = n >= 3;
    e
}

fn min_sphere_bruteforce(pts: &[DVec3]) -> f64 {
    // minimal enclosing sphere radius: best over all support sets of size 2, 3, 4 that contain all points
    let n = pts.len();
    let mut best = f64::INFINITY;
    let contains_all = |c: DVec3, r: f64| pts.iter().all(|p| p.distance(c) <= r * (1. + 1e-9) + 1e-12);
    for i in 0..n {
        for j in (i + 1)..n {
            let c = 0.5 * (pts[i] + pts[j]);
            let r = 0.5 * pts[i].distance(pts[j]);
            if r < best && contains_all(c, r) {
                best = r;
            }
            for k in (j + 1)..n {
                // circumcircle in the plane
                let (a, b) = (pts[i] - pts[k], pts[j] - pts[k]);
                let axb = a.cross(b);
                if axb.length_squared() > 1e-18 {
                    let c = (a.length_squared() * b - b.length_squared() * a).cross(axb) / (2. * axb.length_squared()) + pts[k];
                    let r = c.distance(pts[k]);
                    if r < best && contains_all(c, r) {
                        best = r;
                    }
                }
                for l in (k + 1)..n {
                    let (a, b, cc) = (pts[i] - pts[l], pts[j] - pts[l], pts[k] - pts[l]);
                    let det = a.dot(b.cross(cc));
                    if det.abs() > 1e-12 {
                        let c = (a.length_squared() * b.cross(cc) + b.length_squared() * cc.cross(a) + cc.length_squared() * a.cross(b)) / (2. * det) + pts[l];
                        let r = c.distance(pts[l]);
                        if r < best && contains_all(c, r) {
                            best = r;
                        }
                    }
                }
            }
        }
    }
    best
}

pub fn eval_c20_spheres(item: &(Vec<DVec3>, String)) -> Eval {
    let (pts, id) = item;
    let mut e = Eval::default();
    let mut h = Fnv::new();
    let rp = || {
        let mut s = "check=c20-spheres\n".to_string();
        for p in pts {
            s.push_str(&format!("gen={}\n", vec_hex(*p)));
        }
        s
    };
    let scale = pts.iter().map(|p| p.length()).fold(1e-300, f64::max);
    let inside = |s: &Sphere, p: DVec3| p.distance(s.center) <= s.radius * (1. + 1e-9) + 1e-12 * scale;
    // exact solver
    match guarded(|| verif::welzl(pts)) {
        Err(p) => e.issue("panic", id.clone(), format!("Welzl: {}", p.msg), rp()),
        Ok(s) => {
            e.impl_runs += 1;
            if !(s.radius.is_finite() && all_finite(s.center)) {
                e.issue("welzl-non-finite", id.clone(), format!("centre {} radius {}", fmt_vec(s.center), s.radius), rp());
            } else {
                if let Some(p) = pts.iter().find(|p| !inside(&s, **p)) {
                    e.issue("welzl-does-not-contain-a-point", id.clone(), format!("point {} is outside the sphere centre {} radius {:e}", fmt_vec(*p), fmt_vec(s.center), s.radius), rp());
                }
                if pts.len() >= 2 && pts.len() <= 12 {
                    let best = min_sphere_bruteforce(pts);
                    if !(s.radius <= best * (1. + 1e-9) + 1e-12 * scale) {
                        e.issue("welzl-not-minimal", id.clone(), format!("radius {:e}, minimal enclosing sphere has radius {:e}", s.radius, best), rp());
                    }
                    h.u64((best / scale * 1024.) as u64);
                } else if pts.len() > 12 {
                    // certificate of minimality for large sets: the minimal enclosing sphere of the points ON the returned
                    // sphere (brute force over their 2-, 3-, 4-point supports) is a lower bound of the minimal radius of the
                    // whole set; a minimal sphere carries its own support, so the bound is attained exactly by it and
                    // strictly smaller for every enclosing sphere that is too large
                    let mut on: Vec<DVec3> = pts.iter().copied().filter(|p| p.distance(s.center) >= s.radius * (1. - 1e-7) - 1e-12 * scale).collect();
                    on.truncate(24);
                    let lower = if on.len() >= 2 { min_sphere_bruteforce(&on) } else { 0. };
                    if !(s.radius <= lower * (1. + 1e-6) + 1e-12 * scale) {
                        e.issue("welzl-not-minimal", id.clone(), format!("radius {:e}, but the {} points on that sphere are enclosed by a sphere of radius {:e}: the returned sphere is not supported by its boundary points", s.radius, on.len(), lower), rp());
                    }
                    h.u64(on.len() as u64);
                }
            }
        }
    }
    // approximate solver: containment only
    match guarded(|| verif::epos6(pts)) {
        Err(p) => e.issue("panic", id.clone(), format!("Epos6: {}", p.msg), rp()),
        Ok(s) => {
            e.impl_runs += 1;
            if !(s.radius.is_finite() && all_finite(s.center)) {
                e.issue("epos6-non-finite", id.clone(), format!("centre {} radius {}", fmt_vec(s.center), s.radius), rp());
            } else if let Some(p) = pts.iter().find(|p| !inside(&s, **p)) {
                e.issue("epos6-does-not-contain-a-point", id.clone(), format!("point {} is outside the sphere centre {} radius {:e}", fmt_vec(*p), fmt_vec(s.center), s.radius), rp());
            }
        }
    }
    // spheres of spheres: radii menu
    for radii in [[0.25, 0.25, 0.25, 0.25, 0.25], [0.0, 0.25, 1.0, 0.25, 0.0], [1.0, 0.0, 0.25, 1.0, 0.25]] {
        let sph: Vec<Sphere> = pts.iter().enumerate().map(|(i, p)| Sphere::new(*p, radii[i % 5])).collect();
        e.transitions += 1;
        match guarded(|| verif::epos6_spheres(&sph)) {
            Err(p) => e.issue("panic", format!("{}|radii={:?}", id, radii), format!("Epos6 spheres: {}", p.msg), rp()),
            Ok(s) => {
                e.impl_runs += 1;
                if !(s.radius.is_finite() && all_finite(s.center)) {
                    e.issue("epos6-spheres-non-finite", format!("{}|radii={:?}", id, radii), format!("centre {} radius {}", fmt_vec(s.center), s.radius), rp());
                } else {
                    for x in &sph {
                        if !(x.center.distance(s.center) + x.radius <= s.radius * (1. + 1e-9) + 1e-12 * (scale + 1.)) {
                            e.issue(
                                "epos6-spheres-does-not-contain-a-sphere",
                                format!("{}|radii={:?}", id, radii),
                                format!("sphere centre {} radius {} sticks out of centre {} radius {:e}", fmt_vec(x.center), x.radius, fmt_vec(s.center), s.radius),
                                rp(),
                            );
                            break;
                        }
                    }
                }
            }
        }
    }
    e.sig = h.finish() ^ pts.len() as u64;
    e.nontrivial = pts.len() >= 2;
    e
}

pub fn run_c20(run: &mut Run) {
    let thorough = run.thorough();
    run.rule = "knn: all particle sets of size 2..K from a half-open-box lattice 4x4x2 (and the generic pool), all k < n, 3 box shapes (cubic, (4,1,1), (1,4,2)), 4 grid cell sizes, against brute-force distances; bounding spheres: all subsets (size 1..K) of {0,1,2}^3 and generic points, radii menus for spheres of spheres, containment by own distance computation and minimality against all 2-,3-,4-point support spheres".to_string();
    let kmax = if thorough { 5 } else { 4 };
    for (bn, width) in [("cube", v3(1., 1., 1.)), ("long-x", v3(4., 1., 1.)), ("1x4x2", v3(1., 4., 2.)), ("1.5x1.2x1.5", v3(1.5, 1.2, 1.5))] {
        let anchor = v3(-1., 2., 0.5);
        let mut pool = vec![];
        for i in 0..4 {
            for j in 0..4 {
                for k in 0..2 {
                    pool.push(anchor + v3(i as f64 / 4., j as f64 / 4., k as f64 / 2.) * width + width * v3(1. / 64., 1. / 32., 1. / 16.));
                }
            }
        }
        let subs: Vec<Vec<usize>> = subsets_upto(pool.len(), if thorough { 4 } else { 3 }).into_iter().filter(|s| s.len() >= 2).collect();
        let items: Vec<(DVec3, DVec3, Vec<DVec3>, String)> = subs.iter().map(|s| (anchor, width, s.iter().map(|&i| pool[i]).collect(), format!("knn|{}|L442|{}", bn, idx_list(s)))).collect();
        run.family(format!("knn box {} lattice 4x4x2 sizes 2..{}", bn, if thorough { 4 } else { 3 }), items.len() as u64);
        run.explore(&items, eval_c20_knn, |i| J::s(i.3.clone()));
        // generic pool
        let gp: Vec<DVec3> = GENERIC_POOL.iter().map(|f| anchor + v3(f[0], f[1], f[2]) * width).collect();
        let subs: Vec<Vec<usize>> = subsets_upto(gp.len(), kmax).into_iter().filter(|s| s.len() >= 2).collect();
        let items: Vec<(DVec3, DVec3, Vec<DVec3>, String)> = subs.iter().map(|s| (anchor, width, s.iter().map(|&i| gp[i]).collect(), format!("knn|{}|G|{}", bn, idx_list(s)))).collect();
        run.family(format!("knn box {} generic pool sizes 2..{}", bn, kmax), items.len() as u64);
        run.explore(&items, eval_c20_knn, |i| J::s(i.3.clone()));
    }
    // medium particle sets (deviation bounded): Kronecker pools of 40 (thorough also 120) particles with <= 1 removed, and a
    // dense cluster inside one grid cell with three far particles (k larger than the population of the first rings: the
    // ring-by-ring expansion, the heap replacement and the pruning bounds are all exercised); every k < n, six cell widths
    for (bn, width) in [("cube", v3(1., 1., 1.)), ("1x4x2", v3(1., 4., 2.)), ("long-x", v3(4., 1., 1.))] {
        let anchor = v3(-1., 2., 0.5);
        let bx = BoxSpec { name: "c20", anchor, width };
        let mut items: Vec<(DVec3, DVec3, Vec<DVec3>, String)> = vec![];
        for np in if thorough { vec![40usize, 120] } else { vec![40usize] } {
            let pool = kronecker_points(np, &bx, 3);
            items.push((anchor, width, pool.clone(), format!("knn|{}|K{}|all", bn, np)));
            for r in 0..np {
                if np > 40 && r % 7 != 0 {
                    continue;
                }
                let pts: Vec<DVec3> = (0..np).filter(|&i| i != r).map(|i| pool[i]).collect();
                items.push((anchor, width, pts, format!("knn|{}|K{}|-{}", bn, np, r)));
            }
        }
        for (cn, corner) in [("lo", v3(0.02, 0.03, 0.01)), ("mid", v3(0.47, 0.52, 0.49)), ("hi", v3(0.93, 0.9, 0.95))] {
            let mut pts: Vec<DVec3> = kronecker_points(24, &bx, 3).into_iter().map(|p| anchor + corner * width + (p - anchor) * 0.04).collect();
            for f in [v3(0.9, 0.1, 0.5), v3(0.1, 0.85, 0.2), v3(0.5, 0.5, 0.97)] {
                pts.push(anchor + f * width);
            }
            items.push((anchor, width, pts, format!("knn|{}|cluster24+3|{}", bn, cn)));
        }
        // coincident particles (distinct particles at bitwise the same position): pairs and a triple inside a Kronecker
        // pool of 12, every choice of the doubled particle
        {
            let pool = kronecker_points(12, &bx, 3);
            for a in 0..12 {
                let mut pts = pool.clone();
                pts.push(pool[a]);
                items.push((anchor, width, pts.clone(), format!("knn|{}|K12+dup{}", bn, a)));
                pts.insert(0, pool[a]);
                items.push((anchor, width, pts, format!("knn|{}|K12+triple{}", bn, a)));
            }
            let mut all2 = pool.clone();
            all2.extend(pool.iter().copied());
            items.push((anchor, width, all2, format!("knn|{}|K12-doubled", bn)));
        }
        run.family(format!("knn box {}: Kronecker pools of 40{} with <= 1 removed, clusters of 24 inside one grid cell + 3 far particles, pools of 12 with coincident particles (pairs, triples, the whole set doubled); every k < n", bn, if thorough { " / 120" } else { "" }), items.len() as u64);
        run.explore(&items, eval_c20_knn, |i| J::s(i.3.clone()));
    }
    // fine position alphabet in a plane: particles close to cell faces, neighbours one and two cells away
    // (the ring termination and pruning bounds depend on the distance to the cell face per axis)
    let nf = if thorough { 14 } else { 10 };
    for (bn, width, (ax_a, ax_b)) in [
        ("narrow-y", v3(1.5, 1.2, 1.5), (0usize, 1usize)),
        ("narrow-y", v3(1.5, 1.2, 1.5), (1, 2)),
        ("narrow-z", v3(1.5, 1.5, 1.2), (0, 2)),
        ("narrow-z", v3(1.5, 1.5, 1.2), (1, 2)),
        ("narrow-x", v3(1.2, 1.5, 1.5), (0, 1)),
        ("narrow-x", v3(1.2, 1.5, 1.5), (0, 2)),
    ] {
        let anchor = DVec3::ZERO;
        let mut pool = vec![];
        for i in 0..nf {
            for j in 0..nf {
                let mut p = 0.5 * width;
                set_comp(&mut p, ax_a, (i as f64 + 0.25) / nf as f64 * comp(width, ax_a));
                set_comp(&mut p, ax_b, (j as f64 + 0.25) / nf as f64 * comp(width, ax_b));
                pool.push(p);
            }
        }
        let subs: Vec<Vec<usize>> = subsets_upto(pool.len(), 3).into_iter().filter(|s| s.len() == 3).collect();
        let items: Vec<(DVec3, DVec3, Vec<DVec3>, String)> = subs.iter().map(|s| (anchor, width, s.iter().map(|&i| pool[i]).collect(), format!("knnfine|{}|plane{}{}|{}", bn, ax_a, ax_b, idx_list(s)))).collect();
        run.family(format!("knn fine lattice {}x{} in plane ({},{}) of box {}, all 3-sets, cell width 0.5", nf, nf, ax_a, ax_b, bn), items.len() as u64);
        run.explore(&items, eval_c20_knn, |i| J::s(i.3.clone()));
    }
    // bounding spheres
    let mut p3 = vec![];
    for x in 0..3 {
        for y in 0..3 {
            for z in 0..3 {
                p3.push(v3(x as f64, y as f64, z as f64));
            }
        }
    }
    for (name, off, s) in [("origin", DVec3::ZERO, 1.0), ("offset", v3(10., -20., 5.), 0.125)] {
        let pool: Vec<DVec3> = p3.iter().map(|p| (*p + off) * s).collect();
        let subs = subsets_upto(pool.len(), if thorough { 5 } else { 4 });
        let items: Vec<(Vec<DVec3>, String)> = subs.iter().map(|sb| (sb.iter().map(|&i| pool[i]).collect(), format!("spheres|grid3|{}|{}", name, idx_list(sb)))).collect();
        run.family(format!("bounding spheres: subsets of {{0,1,2}}^3 ({}) sizes 1..{}", name, if thorough { 5 } else { 4 }), items.len() as u64);
        run.explore(&items, eval_c20_spheres, |i| J::s(i.1.clone()));
    }
    // large point sets (beyond any "many points" threshold of a solver): Kronecker points in a ball; a clustered block
    // (a half shell) followed by points inside the block's own bounding sphere and by far points that drag the final
    // sphere away; a drifting helix (every point outside the sphere of its predecessors); each in three storage orders
    {
        let unit = BoxSpec { name: "c20s", anchor: v3(-1., -1., -1.), width: v3(2., 2., 2.) };
        let ball = |n: usize, r: f64| -> Vec<DVec3> { kronecker_points(4 * n, &unit, 3).into_iter().filter(|p| p.length() <= 1.).map(|p| p * r).take(n).collect() };
        let mut sets: Vec<(Vec<DVec3>, String)> = vec![];
        for n in if thorough { vec![30usize, 100, 256, 257, 258, 300, 513, 1000, 2000] } else { vec![30usize, 257, 270, 300, 520, 600] } {
            sets.push((ball(n, 1.), format!("spheres|ball|{}", n)));
            // block: lower half shell of the unit ball; then points high inside the block's bounding sphere; then far points
            // (the block's bounding sphere is the unit ball: four points on its equator come first; nothing of the block
            // lies in the upper half, where the two "inside" points are; the far points pull the final sphere down)
            let mut v: Vec<DVec3> = vec![v3(1., 0., 0.), v3(-1., 0., 0.), v3(0., 0., 1.), v3(0., 0., -1.)];
            v.extend(ball(3 * n, 1.).into_iter().filter(|p| p.y < -0.1 && p.length() > 0.6).take(n.saturating_sub(8).max(8)));
            v.push(v3(0., 0.95, 0.));
            v.push(v3(0.1, 0.9, -0.2));
            v.push(v3(0., -3., 0.));
            v.push(v3(2., -2.5, 0.5));
            sets.push((v, format!("spheres|block+inside+far|{}", n)));
            let helix: Vec<DVec3> = (0..n).map(|i| { let t = i as f64; v3((0.37 * t).cos() * (1. + 0.01 * t), (0.37 * t).sin() * (1. + 0.01 * t), 0.02 * t) }).collect();
            sets.push((helix, format!("spheres|helix|{}", n)));
        }
        let mut items: Vec<(Vec<DVec3>, String)> = vec![];
        for (v, id) in sets {
            let mut r = v.clone();
            r.reverse();
            let mut t = v.clone();
            let k = 256 % t.len();
            t.rotate_left(k);
            items.push((r, format!("{}|reversed", id)));
            items.push((t, format!("{}|rotated256", id)));
            items.push((v, id));
        }
        run.family("bounding spheres: large point sets (30-600 points, thorough up to 2000): ball, clustered block + points inside its bounding sphere + far points, drifting helix; three storage orders; containment and the support certificate of minimality".to_string(), items.len() as u64);
        run.explore(&items, eval_c20_spheres, |i| J::s(i.1.clone()));
    }
    let gp: Vec<DVec3> = GENERIC_POOL.iter().map(|f| v3(f[0], f[1], f[2])).collect();
    let subs = subsets_upto(gp.len(), if thorough { 7 } else { 5 });
    let items: Vec<(Vec<DVec3>, String)> = subs.iter().map(|sb| (sb.iter().map(|&i| gp[i]).collect(), format!("spheres|G|{}", idx_list(sb)))).collect();
    run.family("bounding spheres: subsets of the generic pool".to_string(), items.len() as u64);
    run.explore(&items, eval_c20_spheres, |i| J::s(i.1.clone()));
}
