#!/bin/bash
# Build the verification harness offline from files on disk.
set -e
export CARGO_NET_OFFLINE=true
cd /verif/engine
cargo build --offline --release
CARGO_TARGET_DIR=/verif/engine/target-dbg cargo build --offline --profile reldbg
for be in ibig dashu malachite num_bigint; do
  CARGO_TARGET_DIR=/verif/engine/target-be-$be cargo build --offline --release --no-default-features --features "mv_rayon be_$be"
done
(cd /verif/probe_c14 && CARGO_TARGET_DIR=/verif/engine/target-probe cargo build --offline --release)
cd /verif/sched
CARGO_TARGET_DIR=/verif/sched/target-seq cargo build --offline --release
CARGO_TARGET_DIR=/verif/sched/target-par cargo build --offline --release --features par
