//! C07 (partial = restriction of full), C12 (connectivity index structure), C13 (routes agree).

use crate::alpha::*;
use crate::obs::*;
use crate::oracle::FaceKey;
use crate::report::*;
use crate::tess::*;
use crate::util::*;
use glam::DVec3;
use meshless_voronoi::integrals::{AreaCentroidIntegral, VolumeCentroidIntegral};
use meshless_voronoi::{ConvexCell, ConvexCellMarker, Voronoi, VoronoiIntegrator};
use std::collections::BTreeMap;

fn masks_for(n: usize, max_n: usize) -> Vec<Option<Vec<bool>>> {
    masks_menu(n, max_n)
}

fn bits_eq(a: DVec3, b: DVec3) -> bool {
    vec_bits(a) == vec_bits(b)
}

fn opt_bits_eq(a: Option<DVec3>, b: Option<DVec3>) -> bool {
    match (a, b) {
        (None, None) => true,
        (Some(a), Some(b)) => bits_eq(a, b),
        _ => false,
    }
}

/// The faces of cell i as (other side, shift as seen from i) -> area, from a compact tessellation.
fn cell_face_map(st: &State, v: &Voronoi, i: usize) -> Result<BTreeMap<FaceKey, Vec<f64>>, String> {
    let mut m: BTreeMap<FaceKey, Vec<f64>> = BTreeMap::new();
    for f in v.cells()[i].faces(v) {
        let key = if f.left() == i {
            face_key(st, f.right(), f.shift(), f.normal())?
        } else {
            // i is the right side of an unshifted face
            if f.shift().is_some() || f.right() != Some(i) {
                return Err(format!("cell {} lists face (left {}, right {:?}, shift {:?}) that does not touch it", i, f.left(), f.right(), f.shift().map(fmt_vec)));
            }
            FaceKey::Ngb(f.left(), [0, 0, 0])
        };
        m.entry(key).or_default().push(f.area());
    }
    Ok(m)
}

fn cells_bitwise_equal<M: ConvexCellMarker, N: ConvexCellMarker>(a: &ConvexCell<M>, b: &ConvexCell<N>) -> Option<String> {
    if a.idx != b.idx || !bits_eq(a.loc, b.loc) {
        return Some("idx/loc differ".to_string());
    }
    if a.clipping_planes.len() != b.clipping_planes.len() {
        return Some(format!("{} vs {} clipping planes", a.clipping_planes.len(), b.clipping_planes.len()));
    }
    for (k, (p, q)) in a.clipping_planes.iter().zip(b.clipping_planes.iter()).enumerate() {
        if !bits_eq(p.plane.n, q.plane.n) || !bits_eq(p.plane.p, q.plane.p) || p.right_idx != q.right_idx || !opt_bits_eq(p.shift, q.shift) {
            return Some(format!("clipping plane {} differs", k));
        }
    }
    if a.vertices.len() != b.vertices.len() {
        return Some(format!("{} vs {} vertices", a.vertices.len(), b.vertices.len()));
    }
    for (k, (p, q)) in a.vertices.iter().zip(b.vertices.iter()).enumerate() {
        if !bits_eq(p.loc, q.loc) || p.dual != q.dual {
            return Some(format!("vertex {} differs", k));
        }
    }
    None
}

// ---------------------------------------------------------------------------------------------
// C07

pub fn eval_c07(st: &State) -> Eval {
    eval_c07_with(st, 4)
}

pub fn eval_c07_with(st: &State, max_n: usize) -> Eval {
    eval_c07_masks(st, masks_for(st.n(), max_n).into_iter().flatten().collect())
}

/// Large states under sparse, spatially structured masks (DESIGN section 9): item = (state, committed mask menu).
pub fn eval_c07_item(item: &(State, Vec<Vec<bool>>)) -> Eval {
    match guarded(|| eval_c07_masks(&item.0, item.1.clone())) {
        Ok(e) => e,
        Err(p) => {
            let mut e = Eval::default();
            e.issue(format!("panic:{}", p.msg.chars().take(70).collect::<String>()), item.0.id.clone(), format!("a library call panicked at {}: {}", p.site, p.msg), replay_text("c07", &item.0, &[]));
            e
        }
    }
}

/// The mask menu of a large state: single cells next to every face of the box, at its centre and in a corner (the last six
/// generators as well: the isolated ones of the cluster states), compact blobs of 8 and n/16 cells at a face and in a
/// corner, a rod through the box along x (it touches both x faces), and every 16th cell.
pub fn c07_sparse_masks(st: &State) -> Vec<Vec<bool>> {
    let n = st.n();
    let (a, w) = (st.norm_anchor(), st.norm_width());
    let d2 = |i: usize, q: DVec3| -> f64 {
        let g = st.gen_loc(i);
        (0..st.dim).map(|k| (comp(g, k) - comp(q, k)).powi(2)).sum()
    };
    let nearest = |q: DVec3, k: usize| -> Vec<usize> {
        let mut idx: Vec<usize> = (0..n).collect();
        idx.sort_by(|&i, &j| d2(i, q).partial_cmp(&d2(j, q)).unwrap().then(i.cmp(&j)));
        idx.truncate(k);
        idx
    };
    let at = |f: [f64; 3]| a + v3(f[0], f[1], f[2]) * w;
    let mk = |sel: &[usize]| -> Vec<bool> {
        let mut m = vec![false; n];
        for &i in sel {
            m[i] = true;
        }
        m
    };
    let mut masks = vec![];
    let mut points = vec![[0.5, 0.5, 0.5], [0.002, 0.003, 0.001], [0.999, 0.998, 0.997]];
    for k in 0..st.dim {
        for side in [0.001, 0.999] {
            let mut f = [0.45, 0.55, 0.5];
            f[k] = side;
            points.push(f);
        }
    }
    for f in &points {
        masks.push(mk(&nearest(at(*f), 1)));
    }
    for i in n.saturating_sub(6)..n {
        masks.push(mk(&[i]));
    }
    masks.push(mk(&nearest(at([0.001, 0.5, 0.5]), 8)));
    masks.push(mk(&nearest(at([0.999, 0.999, 0.999]), 8)));
    masks.push(mk(&nearest(at([0.5, 0.999, 0.4]), (n / 16).max(2))));
    masks.push(mk(&nearest(at([0.5, 0.5, 0.5]), (n / 17).max(2))));
    let (c, r) = (at([0.5, 0.5, 0.5]), 0.04);
    let rod: Vec<usize> = (0..n)
        .filter(|&i| {
            let g = st.gen_loc(i);
            (1..st.dim).all(|k| (comp(g, k) - comp(c, k)).abs() < r * comp(w, k))
        })
        .collect();
    if !rod.is_empty() && rod.len() < n {
        masks.push(mk(&rod));
    }
    masks.push((0..n).map(|i| i % 16 == 3).collect());
    masks.sort();
    masks.dedup();
    masks
}

/// Large states for C07: generator counts beyond any "large input" threshold (4500 / 5000), uniform and with a strong
/// density contrast, unit boxes and boxes of 10 and 1000 length units away from the origin.
pub fn c07_large_items(thorough: bool) -> Vec<(State, Vec<Vec<bool>>)> {
    let mut states: Vec<State> = vec![];
    let unit = BoxSpec { name: "b0", anchor: v3(0., 0., 0.), width: v3(1., 1., 1.) };
    let w10 = BoxSpec { name: "w10", anchor: v3(-3., 20., 5.), width: v3(10., 10., 10.) };
    let w1000 = BoxSpec { name: "w1000", anchor: v3(-300., 200., 50.), width: v3(1000., 1000., 1000.) };
    for periodic in [false, true] {
        states.push(State { id: format!("{}|b0|K4500", dim_tag(3, periodic)), dim: 3, periodic, anchor: unit.anchor, width: unit.width, gens: kronecker_points(4500, &unit, 3) });
        states.push(State { id: format!("{}|b0|K5000", dim_tag(2, periodic)), dim: 2, periodic, anchor: unit.anchor, width: unit.width, gens: kronecker_points(5000, &unit, 2) });
        states.push(State { id: format!("{}|w10|K2500", dim_tag(3, periodic)), dim: 3, periodic, anchor: w10.anchor, width: w10.width, gens: kronecker_points(2500, &w10, 3) });
        if thorough {
            states.push(State { id: format!("{}|w1000|K4500", dim_tag(3, periodic)), dim: 3, periodic, anchor: w1000.anchor, width: w1000.width, gens: kronecker_points(4500, &w1000, 3) });
            states.push(State { id: format!("{}|w10|K5000", dim_tag(2, periodic)), dim: 2, periodic, anchor: w10.anchor, width: w10.width, gens: kronecker_points(5000, &w10, 2) });
            states.push(State { id: format!("{}|b0|K5000", dim_tag(1, periodic)), dim: 1, periodic, anchor: unit.anchor, width: unit.width, gens: kronecker_points(5000, &unit, 1) });
        }
    }
    // the cluster states of C01/C02 (dense cluster + six isolated generators whose cells need hundreds of candidates),
    // also scaled to a box of 1000 length units
    for s in large_states(thorough).into_iter().filter(|s| s.id.contains("cluster1200")) {
        let mut big = s.clone();
        big.id = s.id.replace("|b0|", "|w1000|");
        big.anchor = w1000.anchor;
        big.width = w1000.width;
        big.gens = s.gens.iter().map(|g| w1000.anchor + (*g - s.anchor) / s.width * w1000.width).collect();
        if s.dim <= 2 {
            for (g, o) in big.gens.iter_mut().zip(s.gens.iter()) {
                g.z = o.z;
            }
        }
        states.push(s);
        states.push(big);
    }
    states.into_iter().map(|s| {
        let m = c07_sparse_masks(&s);
        (s, m)
    }).collect()
}

pub fn eval_c07_masks(st: &State, masks: Vec<Vec<bool>>) -> Eval {
    let mut e = Eval::default();
    let check = "c07";
    let t = tol(st);
    let n = st.n();
    let x0 = exact_calls_thread();
    let mut h = Fnv::new();
    let full = match build_voronoi(st, None) {
        Ok(v) => v,
        Err(p) => {
            panic_issue(&mut e, check, st, &st.id, &[], &p, "Voronoi::build");
            return e;
        }
    };
    let full_integ = match build_integrator(st, None) {
        Ok(v) => v,
        Err(p) => {
            panic_issue(&mut e, check, st, &st.id, &[], &p, "VoronoiIntegrator::build");
            return e;
        }
    };
    e.impl_runs += 2;
    let full_vc = full_integ.compute_cell_integrals::<VolumeCentroidIntegral>();
    let full_maps: Vec<Result<BTreeMap<FaceKey, Vec<f64>>, String>> = (0..n).map(|i| cell_face_map(st, &full, i)).collect();
    let atol = |a: f64| t.pos * 8. * t.l.powi((st.dim as i32 - 2).max(0)) + 1e-9 * a.abs();
    for mask in masks {
        let ms = mask_str(&mask);
        let case = if n <= 64 { format!("{}|mask={}", st.id, ms) } else { format!("{}|mask=[{} of {} selected: {:?}{}]", st.id, mask.iter().filter(|&&b| b).count(), n, mask.iter().enumerate().filter(|x| *x.1).map(|x| x.0).take(8).collect::<Vec<_>>(), if mask.iter().filter(|&&b| b).count() > 8 { ", ..." } else { "" }) };
        let extra = [("mask", ms.clone())];
        let rp = || replay_text(check, st, &extra);
        e.transitions += n as u64; // one relation per cell: node vs full build
        // direct route
        match build_voronoi(st, Some(&mask)) {
            Err(p) => panic_issue(&mut e, check, st, &case, &extra, &p, "Voronoi::build_partial"),
            Ok(part) => {
                e.impl_runs += 1;
                if part.cells().len() != n {
                    e.issue("cell-count", &case, format!("{} cells", part.cells().len()), rp());
                    continue;
                }
                for i in 0..n {
                    let (c, f) = (&part.cells()[i], &full.cells()[i]);
                    if mask[i] {
                        if c.volume().to_bits() != f.volume().to_bits()
                            || !bits_eq(c.centroid(), f.centroid())
                            || !bits_eq(c.loc(), f.loc())
                            || c.safety_radius().to_bits() != f.safety_radius().to_bits()
                        {
                            e.issue(
                                "selected-cell-differs-from-full",
                                &case,
                                format!("cell {}: partial (vol {:e}, centroid {}, r {:e}) vs full (vol {:e}, centroid {}, r {:e})", i, c.volume(), fmt_vec(c.centroid()), c.safety_radius(), f.volume(), fmt_vec(f.centroid()), f.safety_radius()),
                                rp(),
                            );
                        }
                        // same set of faces
                        match (cell_face_map(st, &part, i), &full_maps[i]) {
                            (Ok(pm), Ok(fm)) => {
                                for (k, areas) in fm {
                                    let a = areas[0];
                                    match pm.get(k) {
                                        None => {
                                            if a.abs() > t.neg_area + atol(a) {
                                                e.issue("selected-cell-face-missing", &case, format!("cell {}: face {} (area {:e}) of the full build is missing", i, k.describe(), a), rp());
                                            }
                                        }
                                        Some(pa) => {
                                            if pa.len() != 1 {
                                                e.issue("selected-cell-face-duplicate", &case, format!("cell {}: face {} listed {} times", i, k.describe(), pa.len()), rp());
                                            }
                                            let r9 = matches!(k, FaceKey::Wall(w) if wall_through_generator(st, i, *w, &t));
                                            if !((pa[0] - a).abs() <= atol(a)) && !r9 {
                                                e.issue("selected-cell-face-area", &case, format!("cell {}: face {} area {:e} (partial) vs {:e} (full)", i, k.describe(), pa[0], a), rp());
                                            }
                                        }
                                    }
                                }
                                for (k, pa) in &pm {
                                    if !fm.contains_key(k) && pa[0].abs() > t.neg_area + atol(pa[0]) {
                                        e.issue("selected-cell-face-extra", &case, format!("cell {}: face {} (area {:e}) does not exist in the full build", i, k.describe(), pa[0]), rp());
                                    }
                                }
                                h.u64(pm.len() as u64);
                            }
                            (Err(err), _) => e.issue("face-identity", &case, err, rp()),
                            (_, Err(err)) => e.issue("face-identity", &st.id, err.clone(), rp()),
                        }
                    } else if c.volume() != 0. || c.centroid() != DVec3::ZERO {
                        e.issue("unselected-cell-not-zero", &case, format!("cell {}: volume {:e} centroid {}", i, c.volume(), fmt_vec(c.centroid())), rp());
                    }
                }
                // ownership
                let mut sel_unsel: BTreeMap<(usize, usize, [i8; 3]), usize> = BTreeMap::new();
                for (fi, f) in part.faces().iter().enumerate() {
                    if f.left() >= n || !mask[f.left()] {
                        e.issue("face-with-unselected-left", &case, format!("face {} has left {}", fi, f.left()), rp());
                        continue;
                    }
                    if let Some(r) = f.right() {
                        if r < n && !mask[r] {
                            if let Ok(s) = shift_key(st, f.shift()) {
                                *sel_unsel.entry((f.left(), r, s)).or_insert(0) += 1;
                            }
                        }
                    }
                }
                for ((l, r, s), cnt) in &sel_unsel {
                    if *cnt != 1 {
                        e.issue("selected-unselected-face-not-once", &case, format!("face {}->{} shift {:?} present {} times", l, r, s, cnt), rp());
                    }
                }
                // every selected-unselected face of the full build is present
                for i in 0..n {
                    if !mask[i] {
                        continue;
                    }
                    if let Ok(fm) = &full_maps[i] {
                        for (k, areas) in fm {
                            if let FaceKey::Ngb(j, s) = k {
                                if !mask[*j] && areas[0].abs() > t.neg_area + atol(areas[0]) && !sel_unsel.contains_key(&(i, *j, *s)) {
                                    e.issue("selected-unselected-face-missing", &case, format!("face {}->{} shift {:?} (area {:e}) is not stored with the selected cell on the left", i, j, s, areas[0]), rp());
                                }
                            }
                        }
                    }
                }
            }
        }
        // integrator route
        match build_integrator(st, Some(&mask)) {
            Err(p) => panic_issue(&mut e, check, st, &case, &extra, &p, "VoronoiIntegrator::build(mask)"),
            Ok(integ) => {
                e.impl_runs += 1;
                let mut nsel = 0;
                for i in 0..n {
                    match (integ.get_cell_at(i), mask[i]) {
                        (Some(c), true) => {
                            nsel += 1;
                            if let Some(fc) = full_integ.get_cell_at(i) {
                                if let Some(d) = cells_bitwise_equal(c, fc) {
                                    e.issue("integrator-cell-differs-from-full", &case, format!("cell {}: {}", i, d), rp());
                                }
                            }
                        }
                        (None, false) => {}
                        (a, b) => e.issue("get_cell_at-vs-mask", &case, format!("cell {}: get_cell_at is_some = {} but mask = {}", i, a.is_some(), b), rp()),
                    }
                }
                if integ.cells_iter().count() != nsel {
                    e.issue("cells_iter-count", &case, format!("cells_iter yields {} cells, {} selected", integ.cells_iter().count(), nsel), rp());
                }
                // the same restriction through the type-state conversions of the integrator (3D): with_faces keeps
                // every slot (None <=> unselected, cell i at index i), and so does discarding the faces again
                if st.dim == 3 {
                    match guarded(|| integ.clone().with_faces()) {
                        Err(p) => panic_issue(&mut e, check, st, &case, &extra, &p, "VoronoiIntegrator::with_faces(mask)"),
                        Ok(wf) => {
                            e.impl_runs += 1;
                            for i in 0..n {
                                match guarded(|| wf.get_cell_at(i).map(|c| (c.idx, bits_eq(c.loc, st.gen_loc(i)), c.vertices.len()))) {
                                    Err(p) => e.issue("with_faces:get_cell_at-panics", &case, format!("cell {}: {}", i, p.msg), rp()),
                                    Ok(got) => match (got, mask[i]) {
                                        (Some((idx, loc_ok, nv)), true) => {
                                            let nv0 = integ.get_cell_at(i).map_or(usize::MAX, |c| c.vertices.len());
                                            if idx != i || !loc_ok || nv != nv0 {
                                                e.issue("with_faces:cell-at-wrong-index", &case, format!("get_cell_at({}) after with_faces has idx {} ({} vertices, {} before)", i, idx, nv, nv0), rp());
                                            }
                                        }
                                        (None, false) => {}
                                        (a, b) => e.issue("with_faces:get_cell_at-vs-mask", &case, format!("cell {}: get_cell_at is_some = {} but mask = {}", i, a.is_some(), b), rp()),
                                    },
                                }
                            }
                            if wf.cells_iter().count() != nsel {
                                e.issue("with_faces:cells_iter-count", &case, format!("cells_iter yields {} cells, {} selected", wf.cells_iter().count(), nsel), rp());
                            }
                            let vcf = wf.compute_cell_integrals::<VolumeCentroidIntegral>();
                            let selv: Vec<usize> = (0..n).filter(|&i| mask[i]).collect();
                            if vcf.len() != selv.len() {
                                e.issue("with_faces:cell-integral-count", &case, format!("{} integrals for {} selected cells", vcf.len(), selv.len()), rp());
                            } else if full_vc.len() == n {
                                for (k, &i) in selv.iter().enumerate() {
                                    let tolv = 64. * (t.pos * t.l.powi(2) + 1e-12 * full_vc[i].volume.abs());
                                    if !((vcf[k].volume - full_vc[i].volume).abs() <= tolv) {
                                        e.issue("with_faces:cell-integral-differs-from-full", &case, format!("selected cell {} (position {}): volume {:e} with faces vs {:e} in the full build", i, k, vcf[k].volume, full_vc[i].volume), rp());
                                    }
                                }
                            }
                            // converting the with-faces integrator gives the same restriction
                            match guarded(|| Voronoi::from(&wf)) {
                                Err(p) => panic_issue(&mut e, check, st, &case, &extra, &p, "Voronoi::from(&with_faces)"),
                                Ok(vw) => {
                                    if vw.cells().len() != n {
                                        e.issue("with_faces:cell-count", &case, format!("{} cells", vw.cells().len()), rp());
                                    } else {
                                        for i in 0..n {
                                            let c = &vw.cells()[i];
                                            if mask[i] {
                                                let f = &full.cells()[i];
                                                let tolv = 64. * (t.pos * t.l.powi(2) + 1e-12 * f.volume().abs());
                                                if !((c.volume() - f.volume()).abs() <= tolv) || !bits_eq(c.loc(), f.loc()) {
                                                    e.issue("with_faces:selected-cell-differs-from-full", &case, format!("cell {}: volume {:e} vs full {:e}", i, c.volume(), f.volume()), rp());
                                                }
                                            } else if c.volume() != 0. || c.centroid() != DVec3::ZERO {
                                                e.issue("with_faces:unselected-cell-not-zero", &case, format!("cell {}: volume {:e}", i, c.volume()), rp());
                                            }
                                        }
                                    }
                                }
                            }
                        }
                    }
                }
                let vc = integ.compute_cell_integrals::<VolumeCentroidIntegral>();
                let sel: Vec<usize> = (0..n).filter(|&i| mask[i]).collect();
                if vc.len() != sel.len() {
                    e.issue("cell-integral-count", &case, format!("{} integrals for {} selected cells", vc.len(), sel.len()), rp());
                } else if full_vc.len() == n {
                    for (k, &i) in sel.iter().enumerate() {
                        if vc[k].volume.to_bits() != full_vc[i].volume.to_bits() || !bits_eq(vc[k].centroid, full_vc[i].centroid) {
                            e.issue("cell-integral-differs-from-full", &case, format!("selected cell {} (position {}): volume {:e} vs full {:e}", i, k, vc[k].volume, full_vc[i].volume), rp());
                        }
                    }
                }
                // symmetric face integrals under the mask: a face between a selected and an unselected
                // cell is present exactly once with the selected cell on the left
                let sym = integ.compute_face_integrals_sym::<FaceRec>();
                let mut seen: BTreeMap<(usize, usize, [i8; 3]), usize> = BTreeMap::new();
                for f in &sym {
                    if f.left() >= n || !mask[f.left()] {
                        e.issue("sym-face-with-unselected-left", &case, format!("left {}", f.left()), rp());
                    }
                    if let (Some(r), Ok(s)) = (f.right(), shift_key(st, f.shift())) {
                        *seen.entry((f.left(), r, s)).or_insert(0) += 1;
                    }
                }
                for i in 0..n {
                    if !mask[i] {
                        continue;
                    }
                    if let Ok(fm) = &full_maps[i] {
                        for (k, areas) in fm {
                            if let FaceKey::Ngb(j, s) = k {
                                if areas[0].abs() <= t.neg_area + atol(areas[0]) {
                                    continue;
                                }
                                let here = seen.get(&(i, *j, *s)).copied().unwrap_or(0);
                                let there = seen.get(&(*j, i, [-s[0], -s[1], -s[2]])).copied().unwrap_or(0);
                                let expected_here = if *s == [0, 0, 0] && mask[*j] { usize::from(i < *j) } else { 1 };
                                let ok = if *s == [0, 0, 0] && mask[*j] { here + there == 1 && here == expected_here } else { here == 1 };
                                if !ok {
                                    e.issue(
                                        "sym-face-ownership",
                                        &case,
                                        format!("face {}->{} shift {:?} (area {:e}): reported {} times from {} and {} times from {}", i, j, s, areas[0], here, i, there, j),
                                        rp(),
                                    );
                                }
                            }
                        }
                    }
                }
            }
        }
    }
    e.sig = h.finish();
    e.nontrivial = n >= 2;
    e.exact_calls = exact_calls_thread() - x0;
    e
}

// ---------------------------------------------------------------------------------------------
// C12

fn check_connectivity(e: &mut Eval, check: &str, st: &State, case: &str, extra: &[(&str, String)], v: &Voronoi, mask: Option<&[bool]>, route: &str) {
    let rp = || replay_text(check, st, extra);
    let n = st.n();
    let cells = v.cells();
    let conn = v.cell_face_connections();
    let nf = v.faces().len();
    if cells.len() != n {
        e.issue("cell-count", case, format!("[{}] {} cells for {} generators", route, cells.len(), n), rp());
        return;
    }
    // offsets = prefix sums, total = length
    let mut off = 0usize;
    for (i, c) in cells.iter().enumerate() {
        if c.face_connections_offset() != off {
            e.issue("offset-not-prefix-sum", case, format!("[{}] cell {}: offset {} expected {}", route, i, c.face_connections_offset(), off), rp());
            return;
        }
        off += c.face_count();
    }
    if off != conn.len() {
        e.issue("total-not-array-length", case, format!("[{}] sum of face counts {} != connection array length {}", route, off, conn.len()), rp());
        return;
    }
    if conn.iter().any(|&f| f >= nf) {
        e.issue("face-index-out-of-range", case, format!("[{}] connection array refers to a face >= {}", route, nf), rp());
        return;
    }
    // each face: listed by left, by right iff (right, no shift), by nobody else
    let mut listed: Vec<Vec<usize>> = vec![vec![]; nf];
    for (i, c) in cells.iter().enumerate() {
        let sl = c.face_indices(v);
        if sl != &conn[c.face_connections_offset()..c.face_connections_offset() + c.face_count()] {
            e.issue("face_indices-slice", case, format!("[{}] cell {}: face_indices is not the documented slice", route, i), rp());
        }
        for &f in sl {
            listed[f].push(i);
        }
        // faces() iterator = the same faces
        let cnt = c.faces(v).count();
        if cnt != sl.len() {
            e.issue("faces-iterator", case, format!("[{}] cell {}: faces() yields {} faces, slice has {}", route, i, cnt, sl.len()), rp());
        }
    }
    let mut expected_ngb: Vec<Vec<usize>> = vec![vec![]; n];
    for (fi, f) in v.faces().iter().enumerate() {
        e.transitions += 1;
        let mut exp = vec![f.left()];
        if let (Some(r), None) = (f.right(), f.shift()) {
            exp.push(r);
            if f.left() < n && r < n {
                expected_ngb[f.left()].push(r);
                expected_ngb[r].push(f.left());
            }
        }
        let mut got = listed[fi].clone();
        exp.sort();
        got.sort();
        if exp != got {
            e.issue(
                "face-listing",
                case,
                format!("[{}] face {} (left {}, right {:?}, shift {:?}) is listed by cells {:?}, expected {:?}", route, fi, f.left(), f.right(), f.shift().map(fmt_vec), got, exp),
                rp(),
            );
        }
    }
    // neighbour_ids
    for i in 0..n {
        let mut got: Vec<usize> = cells[i].neighbour_ids(v).collect();
        let mut exp = expected_ngb[i].clone();
        got.sort();
        exp.sort();
        let constructed = mask.map_or(true, |m| m[i]);
        if got.contains(&i) {
            e.issue(
                if constructed { "neighbour_ids-contains-self" } else { "neighbour_ids-contains-self(unconstructed)" },
                case,
                format!("[{}] cell {}: neighbour_ids = {:?}", route, i, got),
                rp(),
            );
        } else if got != exp {
            e.issue(
                if constructed { "neighbour_ids-wrong" } else { "neighbour_ids-wrong(unconstructed)" },
                case,
                format!("[{}] cell {}: neighbour_ids = {:?}, other sides of its listed faces = {:?}", route, i, got, exp),
                rp(),
            );
        }
        let mut d = got.clone();
        d.dedup();
        if d.len() != got.len() {
            e.issue("neighbour_ids-duplicates", case, format!("[{}] cell {}: neighbour_ids = {:?}", route, i, got), rp());
        }
    }
    // the accessors are functions of the cell's *value*: a cell copied out of the tessellation, and a cell of a cloned
    // tessellation, answer like the cell in place
    let copies: Vec<meshless_voronoi::VoronoiCell> = cells.to_vec();
    let cloned = v.clone();
    for i in 0..n {
        let here: Vec<usize> = cells[i].neighbour_ids(v).collect();
        let copy: Vec<usize> = copies[i].neighbour_ids(v).collect();
        let clone: Vec<usize> = cloned.cells()[i].neighbour_ids(&cloned).collect();
        let cross: Vec<usize> = cloned.cells()[i].neighbour_ids(v).collect();
        if copy != here || clone != here || cross != here || copies[i].face_indices(v) != cells[i].face_indices(v) || cloned.cells()[i].face_indices(&cloned) != cells[i].face_indices(v) {
            e.issue("accessors-depend-on-where-the-cell-is-stored", case, format!("[{}] cell {}: neighbour_ids in place {:?}, of a copy {:?}, of the cloned tessellation {:?} / {:?}", route, i, here, copy, clone, cross), rp());
            break;
        }
    }
}

pub fn eval_c12(st: &State) -> Eval {
    let mut e = Eval::default();
    let check = "c12";
    let n = st.n();
    let x0 = exact_calls_thread();
    let mut h = Fnv::new();
    for mask in masks_for(n, 4) {
        let ms = mask.as_ref().map(|m| mask_str(m)).unwrap_or_else(|| "none".to_string());
        let case = format!("{}|mask={}", st.id, ms);
        let extra = [("mask", ms.clone())];
        match build_voronoi(st, mask.as_deref()) {
            Err(p) => panic_issue(&mut e, check, st, &case, &extra, &p, "Voronoi::build_partial"),
            Ok(v) => {
                e.impl_runs += 1;
                check_connectivity(&mut e, check, st, &case, &extra, &v, mask.as_deref(), "direct");
                h.u64(v.cell_face_connections().len() as u64);
            }
        }
        match build_integrator(st, mask.as_deref()) {
            Err(p) => panic_issue(&mut e, check, st, &case, &extra, &p, "VoronoiIntegrator::build"),
            Ok(integ) => {
                e.impl_runs += 1;
                match guarded(|| Voronoi::from(&integ)) {
                    Ok(v) => check_connectivity(&mut e, check, st, &case, &extra, &v, mask.as_deref(), "from-integrator"),
                    Err(p) => panic_issue(&mut e, check, st, &case, &extra, &p, "Voronoi::from(&VoronoiIntegrator)"),
                }
                if st.dim == 3 {
                    match guarded(|| {
                        let wf = integ.with_faces();
                        Voronoi::from(&wf)
                    }) {
                        Ok(v) => check_connectivity(&mut e, check, st, &case, &extra, &v, mask.as_deref(), "from-integrator-with-faces"),
                        Err(p) => panic_issue(&mut e, check, st, &case, &extra, &p, "with_faces / Voronoi::from"),
                    }
                }
            }
        }
    }
    e.sig = h.finish();
    e.nontrivial = n >= 2;
    e.exact_calls = exact_calls_thread() - x0;
    e
}

// ---------------------------------------------------------------------------------------------
// C13

fn voronoi_bitwise_diff(a: &Voronoi, b: &Voronoi) -> Option<String> {
    if !bits_eq(a.anchor(), b.anchor()) || !bits_eq(a.width(), b.width()) || a.dimensionality() != b.dimensionality() || a.periodic() != b.periodic() {
        return Some("anchor/width/dimensionality/periodic differ".to_string());
    }
    if a.cells().len() != b.cells().len() {
        return Some(format!("{} vs {} cells", a.cells().len(), b.cells().len()));
    }
    for (i, (c, d)) in a.cells().iter().zip(b.cells().iter()).enumerate() {
        if !bits_eq(c.loc(), d.loc())
            || !bits_eq(c.centroid(), d.centroid())
            || c.volume().to_bits() != d.volume().to_bits()
            || c.safety_radius().to_bits() != d.safety_radius().to_bits()
            || c.face_connections_offset() != d.face_connections_offset()
            || c.face_count() != d.face_count()
        {
            return Some(format!("cell {} differs (volume {:e} vs {:e}, faces {} vs {})", i, c.volume(), d.volume(), c.face_count(), d.face_count()));
        }
        let (na, nb): (Vec<usize>, Vec<usize>) = (c.neighbour_ids(a).collect(), d.neighbour_ids(b).collect());
        if na != nb {
            return Some(format!("cell {}: neighbour_ids {:?} vs {:?}", i, na, nb));
        }
    }
    if a.faces().len() != b.faces().len() {
        return Some(format!("{} vs {} faces", a.faces().len(), b.faces().len()));
    }
    for (i, (f, g)) in a.faces().iter().zip(b.faces().iter()).enumerate() {
        if f.left() != g.left()
            || f.right() != g.right()
            || !opt_bits_eq(f.shift(), g.shift())
            || f.area().to_bits() != g.area().to_bits()
            || !bits_eq(f.centroid(), g.centroid())
            || !bits_eq(f.normal(), g.normal())
        {
            return Some(format!("face {} differs: ({}, {:?}, area {:e}) vs ({}, {:?}, area {:e})", i, f.left(), f.right(), f.area(), g.left(), g.right(), g.area()));
        }
    }
    if a.cell_face_connections() != b.cell_face_connections() {
        return Some("cell_face_connections differ".to_string());
    }
    None
}

pub fn eval_c13(st: &State) -> Eval {
    let mut e = Eval::default();
    let check = "c13";
    let t = tol(st);
    let n = st.n();
    let x0 = exact_calls_thread();
    let mut h = Fnv::new();
    for mask in masks_for(n, 4) {
        let ms = mask.as_ref().map(|m| mask_str(m)).unwrap_or_else(|| "none".to_string());
        let case = format!("{}|mask={}", st.id, ms);
        let extra = [("mask", ms.clone())];
        let rp = || replay_text(check, st, &extra);
        let direct = match build_voronoi(st, mask.as_deref()) {
            Ok(v) => v,
            Err(p) => {
                panic_issue(&mut e, check, st, &case, &extra, &p, "Voronoi::build_partial");
                continue;
            }
        };
        let integ = match build_integrator(st, mask.as_deref()) {
            Ok(v) => v,
            Err(p) => {
                panic_issue(&mut e, check, st, &case, &extra, &p, "VoronoiIntegrator::build");
                continue;
            }
        };
        e.impl_runs += 2;
        let active = |i: usize| mask.as_ref().map_or(true, |m| m[i]);
        // (1) conversion = direct build, bitwise
        e.transitions += 1;
        match guarded(|| Voronoi::from(&integ)) {
            Err(p) => panic_issue(&mut e, check, st, &case, &extra, &p, "Voronoi::from(&VoronoiIntegrator)"),
            Ok(conv) => {
                if let Some(d) = voronoi_bitwise_diff(&conv, &direct) {
                    e.issue("conversion-differs-from-direct", &case, d, rp());
                }
            }
        }
        // (2) cell integrals = stored values of the constructed cells in index order
        e.transitions += 1;
        let vc = integ.compute_cell_integrals::<VolumeCentroidIntegral>();
        let sel: Vec<usize> = (0..n).filter(|&i| active(i)).collect();
        if vc.len() != sel.len() {
            e.issue("cell-integrals-count", &case, format!("{} integrals, {} constructed cells", vc.len(), sel.len()), rp());
        } else {
            for (k, &i) in sel.iter().enumerate() {
                let c = &direct.cells()[i];
                if vc[k].volume.to_bits() != c.volume().to_bits() || !bits_eq(vc[k].centroid, c.centroid()) {
                    e.issue("cell-integrals-vs-stored", &case, format!("constructed cell {} (position {}): integral volume {:e} stored {:e}", i, k, vc[k].volume, c.volume()), rp());
                }
            }
        }
        // (3) symmetric face integrals = face list, in order
        e.transitions += 1;
        let sym = integ.compute_face_integrals_sym::<AreaCentroidIntegral>();
        if sym.len() != direct.faces().len() {
            e.issue("sym-face-integrals-count", &case, format!("{} symmetric face integrals, {} stored faces", sym.len(), direct.faces().len()), rp());
        } else {
            for (k, (s, f)) in sym.iter().zip(direct.faces().iter()).enumerate() {
                if s.left() != f.left()
                    || s.right() != f.right()
                    || !opt_bits_eq(s.shift(), f.shift())
                    || s.integral().area.to_bits() != f.area().to_bits()
                    || !bits_eq(s.integral().centroid, f.centroid())
                {
                    e.issue(
                        "sym-face-integrals-vs-stored",
                        &case,
                        format!("position {}: integral ({}, {:?}, area {:e}) vs stored face ({}, {:?}, area {:e})", k, s.left(), s.right(), s.integral().area, f.left(), f.right(), f.area()),
                        rp(),
                    );
                    break;
                }
            }
        }
        // (4) sym = non-sym minus faces whose right is a constructed lower-index cell without shift
        e.transitions += 1;
        let nonsym = integ.compute_face_integrals::<AreaCentroidIntegral>();
        let filtered: Vec<_> = nonsym
            .iter()
            .filter(|f| !(matches!((f.right(), f.shift()), (Some(r), None) if r < f.left() && active(r))))
            .collect();
        if filtered.len() != sym.len() {
            e.issue("sym-vs-nonsym-count", &case, format!("non-symmetric minus already-reported faces = {} faces, symmetric = {}", filtered.len(), sym.len()), rp());
        } else {
            for (k, (a, b)) in filtered.iter().zip(sym.iter()).enumerate() {
                if a.left() != b.left() || a.right() != b.right() || !opt_bits_eq(a.shift(), b.shift()) || a.integral().area.to_bits() != b.integral().area.to_bits() {
                    e.issue("sym-vs-nonsym", &case, format!("position {}: ({}, {:?}) vs ({}, {:?})", k, a.left(), a.right(), b.left(), b.right()), rp());
                    break;
                }
            }
        }
        // the recording integral defined by this crate agrees bitwise with the built-in one
        let recs = integ.compute_face_integrals::<FaceRec>();
        if recs.len() != nonsym.len() || recs.iter().zip(nonsym.iter()).any(|(a, b)| a.integral().area.to_bits() != b.integral().area.to_bits() || a.left() != b.left() || a.right() != b.right()) {
            e.issue("custom-vs-builtin-face-integral", &case, "downstream face integral with the built-in formula disagrees with AreaCentroidIntegral".to_string(), rp());
        }
        h.u64(sym.len() as u64);
        h.u64(nonsym.len() as u64);
        // (6) the public building block of the conversion: `build_voronoi_cells` fills one face vector per generator;
        // their concatenation in index order is the stored face list (bitwise), the returned cells carry the stored
        // values; `into_faces` hands out exactly `faces()`.
        e.transitions += 1;
        match guarded(|| {
            let mut per_cell: Vec<Vec<meshless_voronoi::VoronoiFace>> = vec![vec![]; n];
            let cells = integ.build_voronoi_cells(&mut per_cell);
            (cells, per_cell)
        }) {
            Err(p) => panic_issue(&mut e, check, st, &case, &extra, &p, "VoronoiIntegrator::build_voronoi_cells"),
            Ok((cells, per_cell)) => {
                if cells.len() != n {
                    e.issue("build_voronoi_cells-count", &case, format!("{} cells for {} generators", cells.len(), n), rp());
                } else {
                    for i in 0..n {
                        let (c, d) = (&cells[i], &direct.cells()[i]);
                        if !bits_eq(c.loc(), d.loc()) || !bits_eq(c.centroid(), d.centroid()) || c.volume().to_bits() != d.volume().to_bits() || c.safety_radius().to_bits() != d.safety_radius().to_bits() {
                            e.issue("build_voronoi_cells-vs-stored", &case, format!("cell {}: volume {:e} vs stored {:e}", i, c.volume(), d.volume()), rp());
                            break;
                        }
                        if !active(i) && !per_cell[i].is_empty() {
                            e.issue("build_voronoi_cells-faces-of-unconstructed-cell", &case, format!("cell {}: {} faces", i, per_cell[i].len()), rp());
                        }
                        if per_cell[i].iter().any(|f| f.left() != i) {
                            e.issue("build_voronoi_cells-face-in-wrong-slot", &case, format!("slot {} holds a face whose left cell is another one", i), rp());
                        }
                    }
                    let flat: Vec<&meshless_voronoi::VoronoiFace> = per_cell.iter().flatten().collect();
                    if flat.len() != direct.faces().len() {
                        e.issue("build_voronoi_cells-face-count", &case, format!("{} faces, {} stored", flat.len(), direct.faces().len()), rp());
                    } else if let Some(k) = flat.iter().zip(direct.faces().iter()).position(|(f, g)| {
                        f.left() != g.left() || f.right() != g.right() || !opt_bits_eq(f.shift(), g.shift()) || f.area().to_bits() != g.area().to_bits() || !bits_eq(f.centroid(), g.centroid()) || !bits_eq(f.normal(), g.normal())
                    }) {
                        e.issue("build_voronoi_cells-faces-vs-stored", &case, format!("position {}: ({}, {:?}) vs stored ({}, {:?})", k, flat[k].left(), flat[k].right(), direct.faces()[k].left(), direct.faces()[k].right()), rp());
                    }
                }
            }
        }
        match guarded(|| Voronoi::from(&integ).into_faces()) {
            Err(p) => panic_issue(&mut e, check, st, &case, &extra, &p, "Voronoi::into_faces"),
            Ok(fs) => {
                if fs.len() != direct.faces().len()
                    || fs.iter().zip(direct.faces().iter()).any(|(f, g)| f.left() != g.left() || f.right() != g.right() || !opt_bits_eq(f.shift(), g.shift()) || f.area().to_bits() != g.area().to_bits() || !bits_eq(f.centroid(), g.centroid()))
                {
                    e.issue("into_faces-vs-faces", &case, format!("{} faces handed out, {} stored", fs.len(), direct.faces().len()), rp());
                }
            }
        }
        // (5) 3D: with faces vs without faces, to tolerance
        if st.dim == 3 {
            e.transitions += 1;
            match guarded(|| {
                let wf = integ.clone().with_faces();
                let v = Voronoi::from(&wf);
                let vc = wf.compute_cell_integrals::<VolumeCentroidIntegral>();
                (v, vc)
            }) {
                Err(p) => panic_issue(&mut e, check, st, &case, &extra, &p, "with_faces / Voronoi::from"),
                Ok((wv, wvc)) => {
                    // the with-faces route stores what its own integrals give (bitwise), and everything that does not
                    // depend on the decomposition (generator, safety radius) is the direct build's
                    if wvc.len() == sel.len() && wv.cells().len() == n {
                        for (k, &i) in sel.iter().enumerate() {
                            let c = &wv.cells()[i];
                            if wvc[k].volume.to_bits() != c.volume().to_bits() || !bits_eq(wvc[k].centroid, c.centroid()) {
                                e.issue("with-faces-cell-integrals-vs-stored", &case, format!("cell {}: VolumeCentroidIntegral on the integrator with faces gives {:e}, Voronoi::from of the same integrator stores {:e}", i, wvc[k].volume, c.volume()), rp());
                                break;
                            }
                            let d = &direct.cells()[i];
                            if c.safety_radius().to_bits() != d.safety_radius().to_bits() || !bits_eq(c.loc(), d.loc()) {
                                e.issue("with-faces-safety-radius-or-generator", &case, format!("cell {}: safety radius {:e} / generator {} through the integrator with faces, {:e} / {} in the direct build", i, c.safety_radius(), fmt_vec(c.loc()), d.safety_radius(), fmt_vec(d.loc())), rp());
                                break;
                            }
                        }
                    }
                    if wv.cells().len() != n || wv.faces().len() != direct.faces().len() {
                        e.issue("with-faces-structure", &case, format!("{} cells / {} faces with faces, {} / {} without", wv.cells().len(), wv.faces().len(), n, direct.faces().len()), rp());
                    } else {
                        for i in sel.iter().copied() {
                            let (a, b) = (&wv.cells()[i], &direct.cells()[i]);
                            let scale = b.volume().abs().max(t.l.powi(3) * 1e-6);
                            if !((a.volume() - b.volume()).abs() <= 1e-9 * scale + 64. * t.pos * t.l * t.l) {
                                e.issue("with-faces-volume", &case, format!("cell {}: volume {:e} with faces, {:e} without", i, a.volume(), b.volume()), rp());
                            }
                        }
                        for (k, (f, g)) in wv.faces().iter().zip(direct.faces().iter()).enumerate() {
                            if f.left() != g.left() || f.right() != g.right() || !opt_bits_eq(f.shift(), g.shift()) {
                                e.issue("with-faces-face-identity", &case, format!("face {}: ({}, {:?}) vs ({}, {:?})", k, f.left(), f.right(), g.left(), g.right()), rp());
                                break;
                            }
                            let atol = 64. * t.pos * t.l + 1e-9 * g.area().abs();
                            if !((f.area() - g.area()).abs() <= atol) {
                                let r9 = f.right().is_none() && matches!(wall_key_from_outward(f.normal()), Some(FaceKey::Wall(w)) if wall_through_generator(st, f.left(), w, &t));
                                if r9 {
                                    e.excuse(R9_CLAUSE);
                                } else {
                                    e.issue("with-faces-area", &case, format!("face {} ({}, {:?}): area {:e} with faces, {:e} without", k, f.left(), f.right(), f.area(), g.area()), rp());
                                }
                            }
                        }
                        if wvc.len() != sel.len() {
                            e.issue("with-faces-cell-integrals-count", &case, format!("{} vs {}", wvc.len(), sel.len()), rp());
                        }
                    }
                }
            }
        }
    }
    e.sig = h.finish();
    e.nontrivial = n >= 2;
    e.exact_calls = exact_calls_thread() - x0;
    e
}
