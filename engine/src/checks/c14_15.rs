//! C14 (custom integrals receive an exact signed decomposition), C15 (valid convex polytope).

use crate::alpha::*;
use crate::obs::*;
use crate::oracle::*;
use crate::report::*;
use crate::tess::*;
use crate::util::*;
use glam::DVec3;
use meshless_voronoi::integrals::{AreaCentroidIntegral, FaceIntegrator, VolumeCentroidIntegral};
use meshless_voronoi::{ConvexCell, ConvexCellMarker, VoronoiIntegrator, WithFaces, WithoutFaces};
use std::collections::BTreeMap;

fn masks_upto(n: usize, max_n: usize) -> Vec<Option<Vec<bool>>> {
    masks_menu(n, max_n)
}

// ---------------------------------------------------------------------------------------------
// C14

#[allow(clippy::too_many_arguments)]
fn check_decomposition<M: ConvexCellMarker + 'static>(
    e: &mut Eval,
    check: &str,
    st: &State,
    case: &str,
    extra: &[(&str, String)],
    integ: &VoronoiIntegrator<M>,
    mask: Option<&[bool]>,
    oc: &[OCell],
    t: &Tol,
    route: &str,
) -> Option<(Vec<CellRec>, Vec<FaceIntegrator<FaceRec>>)> {
    let rp = || replay_text(check, st, extra);
    let n = st.n();
    let sel: Vec<usize> = (0..n).filter(|&i| mask.map_or(true, |m| m[i])).collect();
    let cells = integ.compute_cell_integrals::<CellRec>();
    if cells.len() != sel.len() {
        e.issue("cell-integral-count", case, format!("[{}] {} results for {} constructed cells", route, cells.len(), sel.len()), rp());
        return None;
    }
    for (k, &i) in sel.iter().enumerate() {
        let r = &cells[k];
        e.transitions += 1;
        if r.cell_idx != i {
            e.issue("cell-integral-order", case, format!("[{}] result {} belongs to cell {} instead of {}", route, k, r.cell_idx, i), rp());
            continue;
        }
        if !r.apex_ok || vec_bits(r.gen) != vec_bits(st.gen_loc(i)) {
            e.issue("apex-is-not-the-generator", case, format!("[{}] cell {}: apex {} generator {}", route, i, fmt_vec(r.gen), fmt_vec(st.gen_loc(i))), rp());
        }
        let o = &oc[i];
        let d = o.max_vertex_dist.max(1e-300);
        let sg = integ.get_cell_at(i).map(sigma_min).unwrap_or(1.0);
        let pos = t.pos / sg.min(1.0);
        for (m, deg) in [(0usize, 0i32), (1, 1), (2, 1), (3, 1), (4, 2), (5, 2), (6, 2), (7, 2), (8, 2), (9, 2)] {
            let tolm = 8. * (pos * o.surface + 1e-12 * r.abs_vol) * d.powi(deg) + 1e-12 * o.moments[m].abs();
            if !((r.m[m] - o.moments[m]).abs() <= tolm) {
                e.issue(
                    format!("moment-degree-{}", deg),
                    case,
                    format!("[{}] cell {}: signed sum of monomial #{} over the fed tetrahedra = {:e}, integral over the cell = {:e} (tol {:e})", route, i, m, r.m[m], o.moments[m], tolm),
                    rp(),
                );
                break;
            }
        }
    }
    // face integrals
    let faces = integ.compute_face_integrals::<FaceRec>();
    let lf = lib_cell_faces(st, &faces, n);
    for &i in &sel {
        let o = &oc[i];
        let sg = integ.get_cell_at(i).map(sigma_min).unwrap_or(1.0);
        let pos = t.pos / sg.min(1.0);
        for (k, list) in &lf[i].by_key {
            let r = &list[0];
            e.transitions += 1;
            if !r.apex_ok {
                e.issue("face-apex-is-not-the-generator", case, format!("[{}] cell {} face {}", route, i, k.describe()), rp());
            }
            if !(r.max_offplane <= 16. * pos) {
                e.issue("face-triangle-off-plane", case, format!("[{}] cell {} face {}: a base triangle vertex is {:e} off the face plane (tol {:e})", route, i, k.describe(), r.max_offplane, 16. * pos), rp());
            }
            if let Some(of) = o.faces.iter().find(|f| f.key == *k) {
                let ft = face_tol(t, of, pos);
                if !((r.area - of.area).abs() <= ft.area) {
                    let r9 = matches!(k, FaceKey::Wall(w) if wall_through_generator(st, i, *w, t));
                    if r9 {
                        e.excuse(R9_CLAUSE);
                    } else {
                        e.issue("face-signed-areas-vs-face-area", case, format!("[{}] cell {} face {}: signed triangle areas sum to {:e}, face area {:e}", route, i, k.describe(), r.area, of.area), rp());
                    }
                }
            }
        }
        // every non-negligible oracle face receives triangles
        for of in &o.faces {
            if matches!(of.key, FaceKey::Far(_)) || !face_is_active(st.dim, of) {
                continue;
            }
            let ft = face_tol(t, of, pos);
            if !ft.negligible && !lf[i].by_key.contains_key(&of.key) {
                e.issue("face-receives-no-triangles", case, format!("[{}] cell {} face {} (area {:e})", route, i, of.key.describe(), of.area), rp());
            }
        }
    }
    Some((cells, faces))
}

/// Per-cell extra data (a function of the generator index) must reach exactly the integrals of the cell with
/// that index, under every mask, through the three data-carrying entry points; the integrals themselves must
/// be bitwise the ones of the data-free entry points, in the same order.
#[allow(clippy::too_many_arguments)]
fn check_data_delivery<M: ConvexCellMarker + 'static>(
    e: &mut Eval,
    check: &str,
    st: &State,
    case: &str,
    extra: &[(&str, String)],
    integ: &VoronoiIntegrator<M>,
    cells: &[CellRec],
    faces: &[FaceIntegrator<FaceRec>],
    faces_sym: &[FaceIntegrator<FaceRec>],
    route: &str,
) {
    let rp = || replay_text(check, st, extra);
    let n = st.n();
    let data: Vec<u64> = (0..n).map(datum).collect();
    let cd = integ.compute_cell_integrals_with_data::<u64, CellRecD>(&data);
    e.transitions += 1;
    if cd.len() != cells.len() {
        e.issue("data-cell-integral-count", case, format!("[{}] {} results with data, {} without", route, cd.len(), cells.len()), rp());
    } else {
        for (x, y) in cd.iter().zip(cells.iter()) {
            if x.0.data != datum(x.0.cell_idx) {
                e.issue("data-delivered-to-wrong-cell", case, format!("[{}] cell integral of cell {} received the datum of index {:?}", route, x.0.cell_idx, (x.0.data as i64 - 3) as f64 / 7.), rp());
                break;
            }
            if x.0.cell_idx != y.cell_idx || x.0.m.iter().zip(y.m.iter()).any(|(p, q)| p.to_bits() != q.to_bits()) {
                e.issue("data-cell-integrals-differ", case, format!("[{}] result for cell {} differs from the data-free result for cell {}", route, x.0.cell_idx, y.cell_idx), rp());
                break;
            }
        }
    }
    let same = |name: &str, e: &mut Eval, xs: &[FaceIntegrator<FaceRecD>], ys: &[FaceIntegrator<FaceRec>]| {
        if xs.len() != ys.len() {
            e.issue(format!("data-{}-count", name), case, format!("[{}] {} results with data, {} without", route, xs.len(), ys.len()), rp());
            return;
        }
        for (x, y) in xs.iter().zip(ys.iter()) {
            let r = &x.integral().0;
            if r.data != datum(x.left()) || r.cell_idx != x.left() {
                e.issue("data-delivered-to-wrong-cell", case, format!("[{}] {} of cell {} (left {}) received the datum of index {:?}", route, name, r.cell_idx, x.left(), (r.data as i64 - 3) as f64 / 7.), rp());
                return;
            }
            if x.left() != y.left() || x.right() != y.right() || r.plane_idx != y.integral().plane_idx || r.area.to_bits() != y.integral().area.to_bits() || vec_bits(r.centroid) != vec_bits(y.integral().centroid) {
                e.issue(format!("data-{}-differ", name), case, format!("[{}] result (left {}, right {:?}) differs from the data-free result (left {}, right {:?})", route, x.left(), x.right(), y.left(), y.right()), rp());
                return;
            }
        }
    };
    let fd = integ.compute_face_integrals_with_data::<u64, FaceRecD>(&data);
    same("face-integrals", e, &fd, faces);
    let fs = integ.compute_face_integrals_sym_with_data::<u64, FaceRecD>(&data);
    same("sym-face-integrals", e, &fs, faces_sym);
    e.transitions += 2;
    // re-entrant downstream integrals (data = the integrator itself): fed exactly what a plain integral is fed, and the
    // nested calls return what they return at top level
    // (cost: every face integral computes all integrals of its neighbour twice; small states under every mask, larger
    // states when every cell is constructed)
    if n <= 5 || (n <= 20 && integ.cells_iter().count() == n) {
        let refs: Vec<&VoronoiIntegrator<M>> = vec![integ; n];
        let want = |own: usize, right: Option<usize>| reentry_target(integ, own, right).map_or(0, probe_cell);
        e.transitions += 3;
        match guarded(|| integ.compute_face_integrals_with_data::<&VoronoiIntegrator<M>, ReentFace<M>>(&refs)) {
            Err(p) => e.issue("reentrant-face-integral-panics", case, format!("[{}] {}", route, p.msg), rp()),
            Ok(rf) => {
                if rf.len() != faces.len() {
                    e.issue("reentrant-face-integrals-count", case, format!("[{}] {} vs {}", route, rf.len(), faces.len()), rp());
                } else {
                    for (x, y) in rf.iter().zip(faces.iter()) {
                        let (r, q) = (&x.integral().rec, y.integral());
                        if x.left() != y.left() || x.right() != y.right() || r.plane_idx != q.plane_idx || r.tris != q.tris || r.area.to_bits() != q.area.to_bits() || vec_bits(r.centroid) != vec_bits(q.centroid) || r.max_offplane.to_bits() != q.max_offplane.to_bits() || !r.apex_ok {
                            e.issue("reentrant-face-integral-fed-differently", case, format!("[{}] face (left {}, right {:?}): a face integral that calls back into the library on another cell is fed {} triangles, area {:e}, off-plane {:e}; the plain integral {} triangles, area {:e}", route, x.left(), x.right(), r.tris, r.area, r.max_offplane, q.tris, q.area), rp());
                            break;
                        }
                        let w = want(x.left(), x.right());
                        if x.integral().probe_init != w || (r.tris > 0 && x.integral().probe_collect != w) {
                            e.issue("nested-call-result-differs", case, format!("[{}] face (left {}, right {:?}): integrals of another cell computed from inside init/collect differ from the same call at top level", route, x.left(), x.right()), rp());
                            break;
                        }
                    }
                }
            }
        }
        match guarded(|| integ.compute_face_integrals_sym_with_data::<&VoronoiIntegrator<M>, ReentFace<M>>(&refs)) {
            Err(p) => e.issue("reentrant-face-integral-panics", case, format!("[{}] sym: {}", route, p.msg), rp()),
            Ok(rf) => {
                if rf.len() != faces_sym.len() || rf.iter().zip(faces_sym.iter()).any(|(x, y)| x.left() != y.left() || x.right() != y.right() || x.integral().rec.area.to_bits() != y.integral().area.to_bits() || x.integral().rec.tris != y.integral().tris) {
                    e.issue("reentrant-face-integral-fed-differently", case, format!("[{}] symmetric variant: {} results vs {}", route, rf.len(), faces_sym.len()), rp());
                }
            }
        }
        match guarded(|| integ.compute_cell_integrals_with_data::<&VoronoiIntegrator<M>, ReentCell<M>>(&refs)) {
            Err(p) => e.issue("reentrant-cell-integral-panics", case, format!("[{}] {}", route, p.msg), rp()),
            Ok(rc) => {
                if rc.len() != cells.len() {
                    e.issue("reentrant-cell-integrals-count", case, format!("[{}] {} vs {}", route, rc.len(), cells.len()), rp());
                } else {
                    for (x, y) in rc.iter().zip(cells.iter()) {
                        if x.rec.cell_idx != y.cell_idx || x.rec.tets != y.tets || !x.rec.apex_ok || x.rec.m.iter().zip(y.m.iter()).any(|(p, q)| p.to_bits() != q.to_bits()) {
                            e.issue("reentrant-cell-integral-fed-differently", case, format!("[{}] cell {}: {} tetrahedra, volume {:e}; plain integral {} tetrahedra, volume {:e}", route, y.cell_idx, x.rec.tets, x.rec.m[0], y.tets, y.m[0]), rp());
                            break;
                        }
                        let w = want(y.cell_idx, None);
                        if x.probe_init != w || (x.rec.tets > 0 && x.probe_collect != w) {
                            e.issue("nested-call-result-differs", case, format!("[{}] cell {}: integrals of another cell computed from inside init/collect differ from the same call at top level", route, y.cell_idx), rp());
                            break;
                        }
                    }
                }
            }
        }
    }
    // single-cell entry points
    for c in integ.cells_iter() {
        let r = c.compute_cell_integral::<u64, CellRecD>(datum(c.idx));
        if r.0.data != datum(c.idx) || r.0.cell_idx != c.idx {
            e.issue("data-delivered-to-wrong-cell", case, format!("[{}] ConvexCell::compute_cell_integral of cell {}", route, c.idx), rp());
        }
        for f in c.compute_face_integrals::<u64, FaceRecD>(datum(c.idx)) {
            if f.integral().0.data != datum(c.idx) || f.left() != c.idx {
                e.issue("data-delivered-to-wrong-cell", case, format!("[{}] ConvexCell::compute_face_integrals of cell {}", route, c.idx), rp());
            }
        }
    }
}

pub fn eval_c14(st: &State) -> Eval {
    let mut e = Eval::default();
    let check = "c14";
    let t = tol(st);
    let n = st.n();
    let x0 = exact_calls_thread();
    let oc = ocells(st);
    let mut h = Fnv::new();
    for mask in masks_upto(n, 3) {
        let ms = mask.as_ref().map(|m| mask_str(m)).unwrap_or_else(|| "none".to_string());
        let case = format!("{}|mask={}", st.id, ms);
        let extra = [("mask", ms.clone())];
        let rp = || replay_text(check, st, &extra);
        let integ = match build_integrator(st, mask.as_deref()) {
            Ok(v) => v,
            Err(p) => {
                panic_issue(&mut e, check, st, &case, &extra, &p, "VoronoiIntegrator::build");
                continue;
            }
        };
        e.impl_runs += 1;
        let a = check_decomposition(&mut e, check, st, &case, &extra, &integ, mask.as_deref(), &oc, &t, "without-faces");
        // *_with_data: the only data type a downstream crate can use is () (blanket impl), so what can
        // be observed is that the data-carrying entry points return the same results in the same order
        if let Some((cells, faces)) = &a {
            let units = vec![(); n];
            let c2 = integ.compute_cell_integrals_with_data::<(), CellRec>(&units);
            let f2 = integ.compute_face_integrals_with_data::<(), FaceRec>(&units);
            let f3 = integ.compute_face_integrals_sym_with_data::<(), FaceRec>(&units);
            let f3ref = integ.compute_face_integrals_sym::<FaceRec>();
            e.transitions += 3;
            let same_cells = c2.len() == cells.len() && c2.iter().zip(cells.iter()).all(|(x, y)| x.cell_idx == y.cell_idx && x.m.iter().zip(y.m.iter()).all(|(p, q)| p.to_bits() == q.to_bits()));
            if !same_cells {
                e.issue("with-data-cell-integrals-differ", &case, format!("{} vs {} results", c2.len(), cells.len()), rp());
            }
            let same_faces = |x: &Vec<FaceIntegrator<FaceRec>>, y: &Vec<FaceIntegrator<FaceRec>>| {
                x.len() == y.len() && x.iter().zip(y.iter()).all(|(p, q)| p.left() == q.left() && p.right() == q.right() && p.integral().area.to_bits() == q.integral().area.to_bits())
            };
            if !same_faces(&f2, faces) {
                e.issue("with-data-face-integrals-differ", &case, format!("{} vs {} results", f2.len(), faces.len()), rp());
            }
            if !same_faces(&f3, &f3ref) {
                e.issue("with-data-sym-face-integrals-differ", &case, format!("{} vs {} results", f3.len(), f3ref.len()), rp());
            }
            h.u64(cells.iter().map(|c| c.tets as u64).sum());
            check_data_delivery(&mut e, check, st, &case, &extra, &integ, cells, faces, &f3ref, "without-faces");
        }
        if st.dim == 3 {
            match guarded(|| integ.clone().with_faces()) {
                Err(p) => panic_issue(&mut e, check, st, &case, &extra, &p, "with_faces"),
                Ok(wf) => {
                    e.impl_runs += 1;
                    let b = check_decomposition(&mut e, check, st, &case, &extra, &wf, mask.as_deref(), &oc, &t, "with-faces");
                    if let Some((cells, faces)) = &b {
                        let symref = wf.compute_face_integrals_sym::<FaceRec>();
                        check_data_delivery(&mut e, check, st, &case, &extra, &wf, cells, faces, &symref, "with-faces");
                    }
                    // ... and a cell whose faces were derived and discarded again is fed exactly like the cell that never
                    // had faces (bitwise)
                    if let Some((ca, fa)) = &a {
                        let mut k = 0usize;
                        let mut kf = 0usize;
                        for c in wf.cells_iter() {
                            match guarded(|| {
                                let back = c.clone().discard_faces();
                                (back.compute_cell_integral::<(), CellRec>(()), back.compute_face_integrals::<(), FaceRec>(()))
                            }) {
                                Err(p) => {
                                    e.issue("integral-after-round-trip-panics", &case, format!("cell {}: with_faces().discard_faces() then an integral: {}", c.idx, p.msg), rp());
                                    break;
                                }
                                Ok((rc, rf)) => {
                                    let same_cell = ca.get(k).map_or(false, |x| x.cell_idx == rc.cell_idx && x.tets == rc.tets && x.m.iter().zip(rc.m.iter()).all(|(p, q)| p.to_bits() == q.to_bits()));
                                    let same_faces = rf.iter().enumerate().all(|(j, f)| fa.get(kf + j).map_or(false, |g| g.left() == f.left() && g.right() == f.right() && g.integral().area.to_bits() == f.integral().area.to_bits() && g.integral().tris == f.integral().tris));
                                    if !same_cell || !same_faces {
                                        e.issue("integrals-differ-after-round-trip", &case, format!("cell {}: with_faces().discard_faces() is fed {} tetrahedra (volume {:e}); the cell that never had faces {} (volume {:e}); faces equal: {}", c.idx, rc.tets, rc.m[0], ca.get(k).map_or(0, |x| x.tets), ca.get(k).map_or(f64::NAN, |x| x.m[0]), same_faces), rp());
                                        break;
                                    }
                                    kf += rf.len();
                                }
                            }
                            k += 1;
                        }
                    }
                    // with vs without faces agree up to rounding
                    if let (Some((ca, _)), Some((cb, _))) = (&a, &b) {
                        for (x, y) in ca.iter().zip(cb.iter()) {
                            e.transitions += 1;
                            let o = &oc[x.cell_idx.min(n - 1)];
                            let d = o.max_vertex_dist.max(1e-300);
                            for (m, deg) in [(0usize, 0i32), (1, 1), (2, 1), (3, 1), (4, 2), (7, 2), (9, 2), (5, 2), (6, 2), (8, 2)] {
                                let tolm = 32. * (t.pos * o.surface + 1e-12 * (x.abs_vol + y.abs_vol)) * d.powi(deg) + 1e-11 * x.m[m].abs();
                                if !((x.m[m] - y.m[m]).abs() <= tolm) {
                                    e.issue("with-vs-without-faces", &case, format!("cell {}: monomial #{}: {:e} without faces, {:e} with faces", x.cell_idx, m, x.m[m], y.m[m]), rp());
                                    break;
                                }
                            }
                        }
                    }
                }
            }
        }
    }
    e.sig = h.finish();
    e.nontrivial = true;
    e.exact_calls = exact_calls_thread() - x0;
    e
}

// ---------------------------------------------------------------------------------------------
// C15

fn cell_digest_a(c: &ConvexCell<WithoutFaces>) -> u64 {
    let mut h = Fnv::new();
    h.u64(c.idx as u64);
    h.vec3(c.loc);
    for p in &c.clipping_planes {
        h.vec3(p.plane.n);
        h.vec3(p.plane.p);
        h.u64(p.right_idx.map_or(u64::MAX, |r| r as u64));
        if let Some(s) = p.shift {
            h.vec3(s);
        }
    }
    for v in &c.vertices {
        h.vec3(v.loc);
        for d in v.dual {
            h.u64(d as u64);
        }
    }
    let vc = c.compute_cell_integral::<(), VolumeCentroidIntegral>(());
    h.f64(vc.volume);
    h.vec3(vc.centroid);
    for f in c.compute_face_integrals::<(), AreaCentroidIntegral>(()) {
        h.u64(f.right().map_or(u64::MAX, |r| r as u64));
        h.f64(f.integral().area);
        h.vec3(f.integral().centroid);
    }
    h.finish()
}

fn cell_digest_b(c: &ConvexCell<WithFaces>) -> u64 {
    let mut h = Fnv::new();
    h.u64(c.idx as u64);
    h.vec3(c.loc);
    for v in &c.vertices {
        h.vec3(v.loc);
        for d in v.dual {
            h.u64(d as u64);
        }
    }
    h.u64(c.face_count() as u64);
    for f in 0..c.face_count() {
        h.u64(c.neighbour(f).map_or(u64::MAX, |r| r as u64));
        h.vec3(c.clipping_plane(f).n);
        h.u64(c.face_vertex_count(f) as u64);
        for v in c.face_vertices(f) {
            h.u64(*v as u64);
        }
    }
    let vc = c.compute_cell_integral::<(), VolumeCentroidIntegral>(());
    h.f64(vc.volume);
    h.vec3(vc.centroid);
    for f in c.compute_face_integrals::<(), AreaCentroidIntegral>(()) {
        h.u64(f.right().map_or(u64::MAX, |r| r as u64));
        h.f64(f.integral().area);
    }
    h.finish()
}

enum Holder {
    A(ConvexCell<WithoutFaces>),
    B(ConvexCell<WithFaces>),
}

/// All operation sequences of length <= depth over {W: with_faces, D: discard_faces, C: clone (continue on
/// the clone), I: evaluate integrals}; after every step the observation must equal the reference
/// digest of the current type-state.
fn run_sequences(cell: &ConvexCell<WithoutFaces>, depth: usize, ref_a: u64, ref_b: u64) -> (u64, Option<String>) {
    let ops = ['W', 'D', 'C', 'I'];
    let mut count = 0u64;
    let mut stack: Vec<Vec<char>> = vec![vec![]];
    while let Some(seq) = stack.pop() {
        if seq.len() < depth {
            for o in ops {
                let mut s = seq.clone();
                s.push(o);
                stack.push(s);
            }
        }
        if seq.is_empty() {
            continue;
        }
        // run the sequence
        let mut h = Holder::A(cell.clone());
        let mut valid = true;
        for o in &seq {
            h = match (h, o) {
                (Holder::A(c), 'W') => Holder::B(c.with_faces()),
                (Holder::B(c), 'D') => Holder::A(c.discard_faces()),
                (Holder::A(c), 'C') => Holder::A(c.clone()),
                (Holder::B(c), 'C') => Holder::B(c.clone()),
                (Holder::A(c), 'I') => {
                    let _ = cell_digest_a(&c);
                    Holder::A(c)
                }
                (Holder::B(c), 'I') => {
                    let _ = cell_digest_b(&c);
                    Holder::B(c)
                }
                (x, _) => {
                    valid = false;
                    x
                }
            };
            if !valid {
                break;
            }
        }
        if !valid {
            continue;
        }
        count += 1;
        let ok = match &h {
            Holder::A(c) => cell_digest_a(c) == ref_a,
            Holder::B(c) => cell_digest_b(c) == ref_b,
        };
        if !ok {
            return (count, Some(seq.iter().collect()));
        }
    }
    (count, None)
}

pub fn eval_c15(st: &State) -> Eval {
    let mut e = Eval::default();
    let check = "c15";
    let t = tol(st);
    let n = st.n();
    let x0 = exact_calls_thread();
    let mut h = Fnv::new();
    if st.dim < 3 {
        // requesting faces for 1D/2D cells is rejected
        let case = st.id.clone();
        if let Ok(integ) = build_integrator(st, None) {
            e.impl_runs += 1;
            e.transitions += 2;
            match guarded(|| integ.clone().with_faces()) {
                Ok(_) => e.issue("with_faces-accepted-in-low-dimension", &case, format!("VoronoiIntegrator::with_faces returned normally for a {}D tessellation", st.dim), replay_text(check, st, &[])),
                Err(p) => {
                    if !p.msg.contains("Can only convert to WithFaces in 3D") {
                        e.issue("with_faces-rejection-message", &case, format!("panic message: {}", p.msg), replay_text(check, st, &[]));
                    }
                }
            }
            if let Some(c) = integ.get_cell_at(0) {
                let c = c.clone();
                match guarded(|| c.with_faces()) {
                    Ok(_) => e.issue("with_faces-accepted-in-low-dimension", &case, format!("ConvexCell::with_faces returned normally for a {}D cell", st.dim), replay_text(check, st, &[])),
                    Err(p) => {
                        if !p.msg.contains("Can only convert to WithFaces in 3D") {
                            e.issue("with_faces-rejection-message", &case, format!("panic message: {}", p.msg), replay_text(check, st, &[]));
                        }
                    }
                }
            }
        }
        e.sig = st.dim as u64;
        e.nontrivial = true;
        return e;
    }
    let oc = ocells(st);
    for mask in masks_menu_min(n, 3) {
        let ms = mask.as_ref().map(|m| mask_str(m)).unwrap_or_else(|| "none".to_string());
        let case = format!("{}|mask={}", st.id, ms);
        let extra = [("mask", ms.clone())];
        let rp = || replay_text(check, st, &extra);
        let integ = match build_integrator(st, mask.as_deref()) {
            Ok(v) => v,
            Err(p) => {
                panic_issue(&mut e, check, st, &case, &extra, &p, "VoronoiIntegrator::build");
                continue;
            }
        };
        let wf = match guarded(|| integ.clone().with_faces()) {
            Ok(v) => v,
            Err(p) => {
                panic_issue(&mut e, check, st, &case, &extra, &p, "VoronoiIntegrator::with_faces");
                continue;
            }
        };
        e.impl_runs += 2;
        let faces_all = wf.compute_face_integrals::<FaceRec>();
        for i in 0..n {
            let active = mask.as_ref().map_or(true, |m| m[i]);
            let (Some(c), Some(c0)) = (wf.get_cell_at(i), integ.get_cell_at(i)) else {
                if active {
                    e.issue("cell-missing", &case, format!("cell {}", i), rp());
                }
                continue;
            };
            if !active {
                e.issue("unselected-cell-present", &case, format!("cell {}", i), rp());
            }
            let sg = sigma_min(c);
            let pos = t.pos / sg.min(1.0);
            let nv = c.vertices.len();
            // vertices
            for (vi, v) in c.vertices.iter().enumerate() {
                e.transitions += 1;
                if v.dual[0] == v.dual[1] || v.dual[1] == v.dual[2] || v.dual[0] == v.dual[2] {
                    e.issue("vertex-planes-not-distinct", &case, format!("cell {} vertex {}: dual {:?}", i, vi, v.dual), rp());
                }
                for k in v.dual {
                    let p = &c.clipping_planes[k].plane;
                    let d = p.n.dot(v.loc - p.p).abs();
                    if !(d <= 16. * pos) {
                        e.issue("vertex-not-on-its-plane", &case, format!("cell {} vertex {}: {:e} off plane {} (tol {:e})", i, vi, d, k, 16. * pos), rp());
                    }
                }
                for (k, hs) in c.clipping_planes.iter().enumerate() {
                    let d = hs.plane.n.dot(v.loc - hs.plane.p);
                    if !(d >= -16. * pos) {
                        e.issue("vertex-outside-half-space", &case, format!("cell {} vertex {}: {:e} outside half space {}", i, vi, -d, k), rp());
                        break;
                    }
                }
            }
            // faces
            let mut incidence = vec![0usize; nv];
            let mut edges = 0usize;
            let nf = c.face_count();
            // positional agreement: the face integrals of a cell with faces come one per face, in face order (what makes
            // `neighbour(f)` / `shift(f)` / `face_vertices(f)` usable together with the f-th integral), also for faces that
            // degenerate to an edge or a point
            match guarded(|| c.compute_face_integrals::<(), FaceRec>(())) {
                Err(p) => e.issue("face-integrals-of-cell-with-faces-panic", &case, format!("cell {}: {}", i, p.msg), rp()),
                Ok(own) => {
                    if own.len() != nf {
                        e.issue("face-integrals-not-one-per-face", &case, format!("cell {}: {} faces, {} face integrals", i, nf, own.len()), rp());
                    } else if let Some(f) = (0..nf).find(|&f| own[f].right() != c.neighbour(f) || own[f].shift().map(vec_bits) != c.shift(f).map(vec_bits) || vec_bits(own[f].integral().n_in) != vec_bits(c.clipping_plane(f).n)) {
                        e.issue("face-integrals-not-in-face-order", &case, format!("cell {} face {}: neighbour {:?}, integral at the same position has right {:?}", i, f, c.neighbour(f), own[f].right()), rp());
                    }
                }
            }
            for f in 0..nf {
                e.transitions += 1;
                let fv = c.face_vertices(f);
                if fv.len() >= 256 {
                    e.count("faces_with_256+_vertices", 1);
                } else if fv.len() >= 17 {
                    e.count("faces_with_17..255_vertices", 1);
                }
                if fv.len() != c.face_vertex_count(f) {
                    e.issue("face_vertex_count", &case, format!("cell {} face {}", i, f), rp());
                }
                edges += fv.len();
                let plane = c.clipping_plane(f);
                // which clipping plane is it?
                let pk = c.clipping_planes.iter().position(|hs| vec_bits(hs.plane.n) == vec_bits(plane.n) && vec_bits(hs.plane.p) == vec_bits(plane.p));
                let Some(pk) = pk else {
                    e.issue("clipping_plane-accessor", &case, format!("cell {} face {}: plane is not one of the cell's clipping planes", i, f), rp());
                    continue;
                };
                if c.neighbour(f) != c.clipping_planes[pk].right_idx || c.shift(f).map(vec_bits) != c.clipping_planes[pk].shift.map(vec_bits) {
                    e.issue("neighbour/shift-accessor", &case, format!("cell {} face {}", i, f), rp());
                }
                let mut seen = std::collections::BTreeSet::new();
                for &vi in fv {
                    if vi >= nv {
                        e.issue("face-vertex-index-out-of-range", &case, format!("cell {} face {}", i, f), rp());
                        continue;
                    }
                    if !seen.insert(vi) {
                        e.issue("face-vertex-repeated", &case, format!("cell {} face {}: vertex {} listed twice", i, f, vi), rp());
                    }
                    incidence[vi] += 1;
                    if !c.vertices[vi].dual.contains(&pk) {
                        e.issue("face-vertex-not-on-face-plane", &case, format!("cell {} face {}: vertex {} dual {:?} does not contain plane {}", i, f, vi, c.vertices[vi].dual, pk), rp());
                    }
                    let d = plane.n.dot(c.vertices[vi].loc - plane.p).abs();
                    if !(d <= 16. * pos) {
                        e.issue("face-not-planar", &case, format!("cell {} face {}: vertex {} is {:e} off the plane", i, f, vi, d), rp());
                    }
                }
                if fv.len() < 3 {
                    e.issue("face-with-fewer-than-3-vertices", &case, format!("cell {} face {} has {} vertices", i, f, fv.len()), rp());
                    continue;
                }
                // consecutive vertices share an edge: two common planes
                let m = fv.len();
                for k in 0..m {
                    let (a, b) = (&c.vertices[fv[k]], &c.vertices[fv[(k + 1) % m]]);
                    let common = a.dual.iter().filter(|d| b.dual.contains(d)).count();
                    if common < 2 {
                        e.issue("face-polygon-not-a-cycle-of-edges", &case, format!("cell {} face {}: consecutive vertices {} and {} share {} planes", i, f, fv[k], fv[(k + 1) % m], common), rp());
                        break;
                    }
                }
                // orientation, convexity, area
                let pts: Vec<DVec3> = fv.iter().map(|&vi| c.vertices[vi].loc).collect();
                let mut area_vec = DVec3::ZERO;
                for k in 1..m - 1 {
                    area_vec += 0.5 * (pts[k] - pts[0]).cross(pts[k + 1] - pts[0]);
                }
                let area = area_vec.length();
                let per: f64 = (0..m).map(|k| pts[k].distance(pts[(k + 1) % m])).sum();
                let atol = 16. * pos * per + 1e-12 * area;
                let key = face_key(st, c.neighbour(f), c.shift(f), -plane.n);
                let r9 = matches!(key, Ok(FaceKey::Wall(w)) if wall_through_generator(st, i, w, &t));
                if area > 4. * atol {
                    // counter-clockwise about the inward normal
                    if !(area_vec.dot(plane.n) > 0.) {
                        e.issue("face-not-counter-clockwise", &case, format!("cell {} face {}: area vector . inward normal = {:e}", i, f, area_vec.dot(plane.n)), rp());
                    }
                    let mut turn_sum = 0.;
                    let mut convex = true;
                    for k in 0..m {
                        let e1 = pts[(k + 1) % m] - pts[k];
                        let e2 = pts[(k + 2) % m] - pts[(k + 1) % m];
                        if e1.length() <= 16. * pos || e2.length() <= 16. * pos {
                            continue;
                        }
                        let s = e1.cross(e2).dot(plane.n);
                        let cth = e1.dot(e2);
                        if s < -16. * pos * (e1.length() + e2.length()) {
                            convex = false;
                        }
                        turn_sum += s.atan2(cth);
                    }
                    if !convex {
                        e.issue("face-not-convex", &case, format!("cell {} face {}", i, f), rp());
                    }
                    let degenerate_edges = (0..m).any(|k| pts[k].distance(pts[(k + 1) % m]) <= 16. * pos);
                    if !degenerate_edges && !((turn_sum - 2. * std::f64::consts::PI).abs() <= 1e-6) {
                        e.issue("face-not-simple", &case, format!("cell {} face {}: exterior angles sum to {:e}", i, f, turn_sum), rp());
                    }
                }
                // area = face area integral (with faces and without faces) and = oracle
                let rec = faces_all.iter().find(|r| r.left() == i && r.integral().plane_idx == pk);
                match rec {
                    None => {
                        if area > t.neg_area + atol {
                            e.issue("face-without-integral", &case, format!("cell {} face {}", i, f), rp());
                        }
                    }
                    Some(r) => {
                        if r.right() != c.neighbour(f) || r.shift().map(vec_bits) != c.shift(f).map(vec_bits) {
                            e.issue("accessors-vs-face-integrals", &case, format!("cell {} face {}: neighbour {:?} vs integral right {:?}", i, f, c.neighbour(f), r.right()), rp());
                        }
                        if !((r.integral().area - area).abs() <= atol) {
                            if r9 {
                                e.excuse(R9_CLAUSE);
                            } else {
                                e.issue("polygon-area-vs-face-integral", &case, format!("cell {} face {}: polygon area {:e}, area integral {:e}", i, f, area, r.integral().area), rp());
                            }
                        }
                    }
                }
                if let Ok(k) = key {
                    if let Some(of) = oc[i].faces.iter().find(|x| x.key == k) {
                        if !((of.area - area).abs() <= face_tol(&t, of, pos).area + atol) {
                            e.issue("polygon-area-vs-oracle", &case, format!("cell {} face {} ({}): polygon area {:e}, oracle {:e}", i, f, k.describe(), area, of.area), rp());
                        }
                    } else if area > t.neg_area + atol {
                        e.issue("polygon-without-oracle-face", &case, format!("cell {} face {} ({}): polygon area {:e}", i, f, k.describe(), area), rp());
                    }
                }
            }
            for (vi, cnt) in incidence.iter().enumerate() {
                if *cnt != 3 {
                    e.issue("vertex-not-in-three-faces", &case, format!("cell {} vertex {} belongs to {} faces", i, vi, cnt), rp());
                    break;
                }
            }
            // Euler
            if edges % 2 != 0 || (nv as i64) - (edges as i64 / 2) + (nf as i64) != 2 {
                e.issue("euler", &case, format!("cell {}: V = {}, sum of face sizes = {}, F = {}", i, nv, edges, nf), rp());
            }
            h.u64(nv as u64);
            h.u64(nf as u64);
            // round trip and operation sequences
            let ref_a = cell_digest_a(c0);
            let ref_b = cell_digest_b(c);
            let back = c.clone().discard_faces();
            if cell_digest_a(&back) != ref_a {
                e.issue("discard-after-with-faces-not-identity", &case, format!("cell {}", i), rp());
            }
            let c0c = c0.clone();
            match guarded(|| run_sequences(&c0c, 4, ref_a, ref_b)) {
                Ok((cnt, bad)) => {
                    e.transitions += cnt;
                    if let Some(seq) = bad {
                        e.issue("operation-sequence-changes-cell", &case, format!("cell {}: after the sequence {} the cell differs from the reference of its type-state", i, seq), rp());
                    }
                }
                Err(p) => panic_issue(&mut e, check, st, &case, &extra, &p, "type-state operation sequence"),
            }
        }
    }
    e.sig = h.finish();
    e.nontrivial = true;
    e.exact_calls = exact_calls_thread() - x0;
    e
}
