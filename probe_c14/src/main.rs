//! Compile-time witness for C14: everything here must be expressible outside the crate.
use glam::DVec3;
use meshless_voronoi::geometry::{signed_area_tri, signed_volume_tet};
use meshless_voronoi::integrals::{CellIntegral, CellIntegralWithData, FaceIntegral, FaceIntegralWithData};
use meshless_voronoi::{ConvexCell, ConvexCellMarker, VoronoiIntegrator, WithFaces, WithoutFaces};

/// A plain cell integral (no data).
struct Vol(f64);
impl CellIntegral for Vol {
    fn init<M: ConvexCellMarker>(_cell: &ConvexCell<M>) -> Self {
        Vol(0.)
    }
    fn collect(&mut self, v0: DVec3, v1: DVec3, v2: DVec3, gen: DVec3) {
        self.0 += signed_volume_tet(v0, v1, v2, gen);
    }
    fn finalize(self) -> Self {
        self
    }
}

/// A plain face integral (no data).
#[derive(Clone)]
struct Area(f64, usize);
impl FaceIntegral for Area {
    fn init<M: ConvexCellMarker>(cell: &ConvexCell<M>, clipping_plane_idx: usize) -> Self {
        let _ = &cell.clipping_planes[clipping_plane_idx];
        Area(0., cell.idx)
    }
    fn collect(&mut self, v0: DVec3, v1: DVec3, v2: DVec3, gen: DVec3) {
        self.0 += signed_area_tri(v0, v1, v2, gen);
    }
    fn finalize(self) -> Self {
        self
    }
}

/// A cell integral weighted by per-cell data.
struct Mass {
    density: f64,
    mass: f64,
}
impl CellIntegralWithData for Mass {
    type Data = f64;
    fn init_with_data<M: ConvexCellMarker>(_cell: &ConvexCell<M>, density: f64) -> Self {
        Mass { density, mass: 0. }
    }
    fn collect(&mut self, v0: DVec3, v1: DVec3, v2: DVec3, gen: DVec3) {
        self.mass += self.density * signed_volume_tet(v0, v1, v2, gen);
    }
    fn finalize(self) -> Self {
        self
    }
}

/// A face integral weighted by per-cell data.
#[derive(Clone)]
struct Flux {
    weight: f64,
    flux: f64,
}
impl FaceIntegralWithData for Flux {
    type Data = f64;
    fn init_with_data<M: ConvexCellMarker>(_cell: &ConvexCell<M>, _clipping_plane_idx: usize, weight: f64) -> Self {
        Flux { weight, flux: 0. }
    }
    fn collect(&mut self, v0: DVec3, v1: DVec3, v2: DVec3, gen: DVec3) {
        self.flux += self.weight * signed_area_tri(v0, v1, v2, gen);
    }
    fn finalize(self) -> Self {
        self
    }
}

fn close(a: f64, b: f64) -> bool {
    (a - b).abs() <= 1e-12 * (1. + a.abs().max(b.abs()))
}

fn main() {
    let g = vec![DVec3::new(0.25, 0.25, 0.25), DVec3::new(0.75, 0.75, 0.75), DVec3::new(0.25, 0.75, 0.5)];
    let mask = [true, false, true];
    let integ: VoronoiIntegrator<WithoutFaces> = VoronoiIntegrator::build(&g, Some(&mask), DVec3::ZERO, DVec3::ONE, 3.try_into().unwrap(), false);
    let with_faces: VoronoiIntegrator<WithFaces> = integ.clone().with_faces();
    let vol = integ.compute_cell_integrals::<Vol>();
    let mass = integ.compute_cell_integrals_with_data::<f64, Mass>(&[1., 10., 100.]);
    let mass_f = with_faces.compute_cell_integrals_with_data::<f64, Mass>(&[1., 10., 100.]);
    let area = integ.compute_face_integrals::<Area>();
    let flux = integ.compute_face_integrals_with_data::<f64, Flux>(&[1., 10., 100.]);
    let flux_sym = integ.compute_face_integrals_sym_with_data::<f64, Flux>(&[1., 10., 100.]);
    let mut ok = vol.len() == 2 && mass.len() == 2 && mass_f.len() == 2 && area.len() == flux.len() && !flux_sym.is_empty();
    ok &= close(mass[0].mass, vol[0].0) && close(mass[1].mass, 100. * vol[1].0) && close(mass_f[1].mass, 100. * vol[1].0);
    for (a, f) in area.iter().zip(flux.iter()) {
        let w = if a.left() == 0 { 1. } else { 100. };
        ok &= a.left() == f.left() && a.integral().1 == a.left() && close(f.integral().flux, w * a.integral().0);
    }
    if !ok {
        println!("PROBE-FAILED: downstream integrals with data give inconsistent results");
        std::process::exit(1);
    }
    println!("PROBE-OK: {} cell integrals, {} face integrals with per-cell data", mass.len(), flux.len());
}
