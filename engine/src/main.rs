#![allow(dead_code, unused_imports, unused_variables)]
//! vcheck: bounded exhaustive exploration of meshless_voronoi (see /verif/DESIGN.md).

mod alpha;
mod bigint;
#[path = "../../common/pipeline.rs"]
mod pipeline;
mod checks;
mod obs;
mod oracle;
mod report;
mod tess;
mod util;

use alpha::*;
use report::*;

fn usage() -> ! {
    eprintln!("usage: vcheck <C01..C20> <quick|thorough> | vcheck replay <path>");
    std::process::exit(2);
}

fn main() {
    util::install_panic_hook();
    let args: Vec<String> = std::env::args().collect();
    if args.len() < 3 {
        usage();
    }
    if args[1] == "replay" {
        std::process::exit(checks::replay(&args[2]));
    }
    if args[1] == "C09HIST" {
        // replay of one call history: `history=a>b>c` and `real_rayon_threads=k` lines of a C09 replay file
        let text = std::fs::read_to_string(&args[2]).unwrap_or_default();
        let get = |k: &str| text.lines().find_map(|l| l.strip_prefix(&format!("{}=", k)).map(|s| s.to_string()));
        let (Some(hist), Some(threads)) = (get("history"), get("real_rayon_threads").and_then(|t| t.parse::<usize>().ok())) else {
            eprintln!("no history= / real_rayon_threads= lines in {}", args[2]);
            std::process::exit(2);
        };
        let inputs = pipeline::pipeline_inputs();
        let sq: Vec<usize> = hist.split('>').filter_map(|x| x.parse().ok()).filter(|&i| i < inputs.len()).collect();
        let Some(&last) = sq.last() else { std::process::exit(2) };
        let pool = rayon::ThreadPoolBuilder::new().num_threads(threads).build().expect("pool");
        let mut d = 0u64;
        for &i in &sq {
            println!("  run input {} ({})", i, inputs[i].name);
            d = util::guarded(|| pool.install(|| pipeline::run_pipeline(&inputs[i])).total()).unwrap_or(1);
        }
        let alone_input = inputs[last].clone();
        let alone = std::thread::Builder::new().stack_size(64 << 20).spawn(move || util::guarded(|| pipeline::run_pipeline(&alone_input).total()).unwrap_or(1)).expect("spawn").join().unwrap_or(1);
        println!("digest of the last call after the history: {:016x}; digest of that input alone on a fresh thread: {:016x}", d, alone);
        if d != alone {
            println!("REPRODUCED: the result depends on the call history");
            std::process::exit(1);
        }
        println!("NOT REPRODUCED: the history does not change the result");
        std::process::exit(0);
    }
    if args[1] == "C09REAL" {
        // conformance of the scheduling model with the implementation: the same pipeline on real rayon pools
        let runs = if args[2] == "thorough" { 10 } else { 3 };
        let mut lines = vec![];
        for (i, inp) in pipeline::pipeline_inputs().iter().enumerate() {
            let bigi = pipeline::is_big(inp);
            let pools: &[usize] = if bigi { &[1, 2, 5, 16] } else { &[1, 2, 3, 4, 8, 16, 64] };
            let runs = if bigi { runs.min(2) } else { runs };
            for &threads in pools {
                let pool = rayon::ThreadPoolBuilder::new().num_threads(threads).build().expect("pool");
                for run in 0..runs {
                    let d = util::guarded(|| pool.install(|| pipeline::run_pipeline(inp)).total()).unwrap_or(1);
                    lines.push(format!("{}\t{}\t{}\t{:016x}", i, threads, run, d));
                }
            }
        }
        // call histories: every ordered pair (thorough: every triple of the history-only inputs as well) of inputs run
        // one after the other on the persistent workers of one fresh pool; the digest of the last call must be the
        // digest of that input run alone (a pure function of the input does not depend on what was computed before)
        let inputs = pipeline::pipeline_inputs();
        // big inputs are not part of the all-pairs histories (cost); each one follows and precedes itself and two small inputs
        let all: Vec<usize> = (0..inputs.len()).filter(|&i| !pipeline::is_big(&inputs[i])).collect();
        let big: Vec<usize> = (0..inputs.len()).filter(|&i| pipeline::is_big(&inputs[i])).collect();
        let hist_only: Vec<usize> = (0..inputs.len()).filter(|&i| !inputs[i].explore).collect();
        let mut seqs: Vec<Vec<usize>> = vec![];
        for &a in &all {
            for &b in &all {
                seqs.push(vec![a, b]);
            }
        }
        for &b in &big {
            seqs.push(vec![b, b]);
            for &a in all.iter().take(2) {
                seqs.push(vec![a, b]);
                seqs.push(vec![b, a]);
            }
        }
        if args[2] == "thorough" {
            for &a in &hist_only {
                for &b in &hist_only {
                    for &c in &hist_only {
                        seqs.push(vec![a, b, c]);
                    }
                }
            }
        }
        let nseq = seqs.len();
        // histories are independent of one another (each has its own fresh pool): eight driver threads
        for threads in [1usize, 2] {
            let next = std::sync::atomic::AtomicUsize::new(0);
            let out: std::sync::Mutex<Vec<(usize, String)>> = std::sync::Mutex::new(vec![]);
            std::thread::scope(|sc| {
                for _ in 0..8 {
                    sc.spawn(|| loop {
                        let k = next.fetch_add(1, std::sync::atomic::Ordering::Relaxed);
                        if k >= seqs.len() {
                            break;
                        }
                        let sq = &seqs[k];
                        let pool = rayon::ThreadPoolBuilder::new().num_threads(threads).build().expect("pool");
                        let mut last = 0u64;
                        for &i in sq {
                            // a panic is an observation (digest 1): it cannot equal the reference of the input
                            last = util::guarded(|| pool.install(|| pipeline::run_pipeline(&inputs[i])).total()).unwrap_or(1);
                        }
                        out.lock().unwrap().push((k, format!("hist\t{}\t{}\t{:016x}", sq.iter().map(|i| i.to_string()).collect::<Vec<_>>().join(">"), threads, last)));
                    });
                }
            });
            let mut o = out.into_inner().unwrap();
            o.sort();
            lines.extend(o.into_iter().map(|x| x.1));
        }
        println!("C09REAL: {} call histories x 2 pool sizes", nseq);
        let path = std::env::var("VERIF_C09_REAL_OUT").unwrap_or_else(|_| "/tmp/c09_real.digest".to_string());
        std::fs::write(&path, lines.join("\n") + "\n").expect("write real-rayon digests");
        println!("C09REAL: {} runs on real rayon pools -> {}", lines.len(), path);
        std::process::exit(0);
    }
    let prop = args[1].to_uppercase();
    let tier = args[2].as_str();
    if tier != "quick" && tier != "thorough" {
        usage();
    }
    // a panic that escapes every `guarded` call is a harness error: report where it came from (the hook is silent)
    let code = match util::guarded(|| checks::run(&prop, tier)) {
        Ok(c) => c,
        Err(p) => {
            println!("MACHINERY: unguarded panic in the harness at {}: {}", p.site, p.msg);
            2
        }
    };
    std::process::exit(code);
}

/// Run a per-state evaluation over the E1 families.
pub fn run_e1<F: Fn(&State) -> Eval + Sync>(run: &mut Run, dims: &[usize], periodic: &[bool], max_n: usize, f: F) {
    run_e1_perm(run, dims, periodic, max_n, false, f)
}

/// All non-identity orders of the generators of a state (the input slice order is part of the input: indices decide
/// face ownership, `left`/`right`, connectivity order). The alphabets list their points in lexicographic order, so
/// without this every enumerated state would have its generators sorted by position.
pub fn permuted_copies(st: &State) -> Vec<State> {
    let n = st.n();
    let mut out = vec![];
    let mut idx: Vec<usize> = (0..n).collect();
    // Heap's algorithm, skipping the identity
    fn rec(k: usize, idx: &mut Vec<usize>, st: &State, out: &mut Vec<State>) {
        if k <= 1 {
            if idx.iter().enumerate().any(|(i, &j)| i != j) {
                let mut c = st.clone();
                c.gens = idx.iter().map(|&j| st.gens[j]).collect();
                c.id = format!("{}|order={}", st.id, idx.iter().map(|j| j.to_string()).collect::<Vec<_>>().join(""));
                out.push(c);
            }
            return;
        }
        for i in 0..k {
            rec(k - 1, idx, st, out);
            if k % 2 == 0 {
                idx.swap(i, k - 1);
            } else {
                idx.swap(0, k - 1);
            }
        }
    }
    rec(n, &mut idx, st, &mut out);
    out
}

pub fn run_e1_perm<F: Fn(&State) -> Eval + Sync>(run: &mut Run, dims: &[usize], periodic: &[bool], max_n: usize, perms: bool, f: F) {
    // a panic of the library in a call the check did not guard individually (accessors such as get_cell_at) is an
    // observation about that state, not a harness crash
    let check = run.property.to_lowercase();
    let hist_max = if run.thorough() { 5 } else { 4 };
    let f = move |s: &State| -> Eval {
        match util::guarded(|| f(s)) {
            Ok(mut e) => {
                if s.n() <= hist_max {
                    tess::history_differential(&mut e, &check, s);
                }
                e
            }
            Err(p) => {
                let mut e = Eval::default();
                e.issue(
                    format!("panic:{}", p.msg.chars().take(70).collect::<String>()),
                    s.id.clone(),
                    format!("a library call panicked at {}: {}", p.site, p.msg),
                    tess::replay_text(&check, s, &[]),
                );
                e
            }
        }
    };
    let fams = e1_families(run.thorough(), dims, periodic);
    let pmax = if run.thorough() { 4 } else { 3 };
    if perms {
        run.bounds.push(format!("every order of the generators in the input slice for states with 2..{} generators", pmax));
    }
    run.bounds.push(format!("call-history transitions (same slice under the next lower dimensionality / reversed / single-cell mask / one generator moved, then the state again) for states with at most {} generators", hist_max));
    for fam in fams {
        let mut states: Vec<State> = fam.states().into_iter().filter(|s| s.n() <= max_n).collect();
        let mut desc = fam.describe();
        if perms {
            let extra: Vec<State> = states.iter().filter(|s| s.n() >= 2 && s.n() <= pmax).flat_map(permuted_copies).collect();
            desc = format!("{} + {} reordered copies (all n! input orders, n <= {})", desc, extra.len(), pmax);
            states.extend(extra);
        }
        run.family(desc, states.len() as u64);
        run.explore(&states, &f, |s| s.to_json());
    }
    let mut med = medium_families(run.thorough(), dims, periodic);
    if dims.contains(&3) && periodic.contains(&false) {
        med.push(("3R big cells: axis pair + ring of m (shared face with m vertices), m-sided prism + neighbour above (one clip removes m vertices), jittered Fibonacci shells (about m planes, 2m-4 vertices)".to_string(), bigcell_family(run.thorough())));
    }
    for (desc, states) in med {
        // the size cap of a quick tier applies to the lattice / pool families, not to the big-cell states
        let big = desc.starts_with("3R big cells");
        let states: Vec<State> = states.into_iter().filter(|s| big || s.n() <= max_n).collect();
        if states.is_empty() {
            continue;
        }
        run.family(desc, states.len() as u64);
        run.explore(&states, &f, |s| s.to_json());
    }
}
