//! C05: construction is total and robust on boundary and degenerate inputs.

use crate::alpha::*;
use crate::bigint::*;
use crate::checks::{c01_04, c07_12_13};
use crate::report::*;
use crate::tess::*;
use crate::util::*;
use glam::DVec3;
use meshless_voronoi::verif::ClipCell;

pub fn build_kind() -> &'static str {
    if cfg!(debug_assertions) {
        "dbg"
    } else {
        "rel"
    }
}

/// Family B1: one generator of a lattice state displaced by eps * d.
pub fn displaced_states(dim: usize, periodic: bool, b: &BoxSpec, lat: Lattice, k: usize) -> Vec<State> {
    let pool = lattice_points(lat, b, dim, periodic);
    let mut out = vec![];
    let dirs = [v3(1., 0., 0.), v3(1., 1., 0.), v3(1., 2., 3.)];
    let exps = [20, 30, 40, 50];
    let l = {
        let mut l: f64 = 0.;
        for a in 0..dim {
            l = l.max(comp(b.width, a));
        }
        l
    };
    for sub in subsets_upto(pool.len(), k) {
        for which in 0..sub.len() {
            for (di, d) in dirs.iter().enumerate() {
                if dim == 1 && di > 0 {
                    continue;
                }
                if dim == 2 && di > 1 {
                    continue;
                }
                for ex in exps {
                    let eps = l * (2f64).powi(-ex);
                    let mut st = make_state(dim, periodic, b, lat.name, &pool, &sub);
                    let mut p = st.gens[which];
                    for ax in 0..dim {
                        let dd = comp(*d, ax) * eps;
                        let c = comp(p, ax);
                        // stay inside the closed box: move inwards from the upper wall
                        let hi = comp(b.anchor, ax) + comp(b.width, ax);
                        let nc = if c + dd > hi { c - dd } else { c + dd };
                        set_comp(&mut p, ax, nc);
                    }
                    if periodic {
                        // keep inside the half-open box
                        for ax in 0..dim {
                            let hi = comp(b.anchor, ax) + comp(b.width, ax);
                            if comp(p, ax) >= hi {
                                let nc = comp(p, ax) - comp(b.width, ax);
                                set_comp(&mut p, ax, nc);
                            }
                        }
                    }
                    st.gens[which] = p;
                    st.id = format!("{}|disp={}:e{}:d{}", st.id, which, ex, di);
                    out.push(st);
                }
            }
        }
    }
    out
}

/// Family B2: clusters = a lattice state scaled by 2^-s about the box centre or the lower corner,
/// optionally plus one far generator.
pub fn cluster_states(dim: usize, periodic: bool, b: &BoxSpec, lat: Lattice, k: usize) -> Vec<State> {
    let pool = lattice_points(lat, b, dim, periodic);
    let mut out = vec![];
    for sub in subsets_upto(pool.len(), k) {
        if sub.len() < 2 {
            continue;
        }
        for s in [10, 20, 30, 40] {
            for about in 0..2 {
                for far in 0..2 {
                    let mut st = make_state(dim, periodic, b, lat.name, &pool, &sub);
                    let f = (2f64).powi(-s);
                    let origin = if about == 0 { b.anchor + 0.5 * b.width } else { b.anchor };
                    for g in st.gens.iter_mut() {
                        for ax in 0..dim {
                            // lattice points relative to the anchor, scaled, placed at the origin of the cluster
                            let rel = comp(*g, ax) - comp(b.anchor, ax);
                            let shift = if about == 0 { -0.5 * f * comp(b.width, ax) } else { 0. };
                            set_comp(g, ax, comp(origin, ax) + rel * f + shift);
                        }
                    }
                    if far == 1 {
                        let mut p = b.anchor + 0.8125 * b.width;
                        for ax in dim..3 {
                            set_comp(&mut p, ax, comp(st.gens[0], ax));
                        }
                        st.gens.push(p);
                    }
                    st.id = format!("{}|cluster=s{}:o{}:f{}", st.id, s, about, far);
                    out.push(st);
                }
            }
        }
    }
    out
}

/// Integer points on a common sphere (3D) / circle (2D).
pub fn shell_points(dim: usize) -> Vec<[i32; 3]> {
    let mut v = vec![];
    if dim == 3 {
        // all sign changes and permutations of (1,2,2): radius 3
        for p in [[1, 2, 2], [2, 1, 2], [2, 2, 1]] {
            for sx in [-1, 1] {
                for sy in [-1, 1] {
                    for sz in [-1, 1] {
                        v.push([p[0] * sx, p[1] * sy, p[2] * sz]);
                    }
                }
            }
        }
        // plus the axis points (3,0,0)...
        for ax in 0..3 {
            for s in [-3, 3] {
                let mut p = [0, 0, 0];
                p[ax] = s;
                v.push(p);
            }
        }
    } else {
        for p in [[5, 0, 0], [0, 5, 0], [3, 4, 0], [4, 3, 0]] {
            for sx in [-1, 1] {
                for sy in [-1, 1] {
                    let q = [p[0] * sx, p[1] * sy, 0];
                    if !v.contains(&q) {
                        v.push(q);
                    }
                }
            }
        }
    }
    v
}

/// Family B3: co-spherical non-lattice sets: centre + subsets of the shell (radius 3/16 resp. 5/32 of the smallest width).
pub fn cospherical_states(dim: usize, periodic: bool, b: &BoxSpec, k: usize) -> Vec<State> {
    let shell = shell_points(dim);
    let mut wmin = f64::INFINITY;
    for ax in 0..dim {
        wmin = wmin.min(comp(b.width, ax));
    }
    let unit = if dim == 3 { wmin / 16. } else { wmin / 32. };
    let centre = {
        let mut c = b.anchor + 0.5 * b.width;
        for ax in dim..3 {
            set_comp(&mut c, ax, GARBAGE[ax % 3]);
        }
        c
    };
    let pts: Vec<DVec3> = shell
        .iter()
        .map(|p| {
            let mut q = centre;
            for ax in 0..dim {
                set_comp(&mut q, ax, comp(centre, ax) + p[ax] as f64 * unit);
            }
            q
        })
        .collect();
    let mut out = vec![];
    let mut subs = subsets_upto(pts.len(), k);
    // the full shell and the full shell minus one point
    subs.push((0..pts.len()).collect());
    for drop in 0..pts.len() {
        subs.push((0..pts.len()).filter(|&i| i != drop).collect());
    }
    for with_centre in [true, false] {
        for sub in &subs {
            if !with_centre && sub.len() < 4 {
                continue;
            }
            let mut st = make_state(dim, periodic, b, "shell", &pts, sub);
            if with_centre {
                st.gens.insert(0, centre);
                st.id = format!("{}|centre", st.id);
            }
            out.push(st);
        }
    }
    out
}

pub struct C05Opts {
    pub verdicts: bool,
}

pub fn eval_c05(st: &State) -> Eval {
    eval_c05_with(st, true)
}

pub fn eval_c05_with(st: &State, verdicts: bool) -> Eval {
    let mut e = Eval::default();
    let check = "c05";
    let kind = build_kind();
    let case = format!("{}|{}", st.id, kind);
    let n = st.n();
    let x0 = exact_calls_thread();
    let mut h = Fnv::new();
    let rp = |extra: &[(&str, String)]| replay_text(check, st, extra);
    // totality: all three entry points, all masks for n <= 3
    let mut any_panic = false;
    match build_voronoi(st, None) {
        Err(p) => {
            any_panic = true;
            panic_issue(&mut e, check, st, &case, &[], &p, "Voronoi::build");
        }
        Ok(v) => {
            e.impl_runs += 1;
            for (i, c) in v.cells().iter().enumerate() {
                if !c.volume().is_finite() || !all_finite(c.centroid()) || !c.safety_radius().is_finite() {
                    e.issue("non-finite", &case, format!("cell {}: volume {} centroid {} radius {}", i, c.volume(), fmt_vec(c.centroid()), c.safety_radius()), rp(&[]));
                }
            }
            for (i, f) in v.faces().iter().enumerate() {
                if !f.area().is_finite() || !all_finite(f.centroid()) || !all_finite(f.normal()) {
                    e.issue("non-finite", &case, format!("face {}: area {} centroid {}", i, f.area(), fmt_vec(f.centroid())), rp(&[]));
                }
            }
            h.u64(v.faces().len() as u64);
        }
    }
    match build_integrator(st, None) {
        Err(p) => {
            any_panic = true;
            panic_issue(&mut e, check, st, &case, &[], &p, "VoronoiIntegrator::build");
        }
        Ok(_) => e.impl_runs += 1,
    }
    if n <= 3 && !any_panic {
        for mask in all_masks(n) {
            let ms = mask_str(&mask);
            if let Err(p) = build_voronoi(st, Some(&mask)) {
                panic_issue(&mut e, check, st, &format!("{}|mask={}", case, ms), &[("mask", ms.clone())], &p, "Voronoi::build_partial");
            } else {
                e.impl_runs += 1;
            }
        }
    }
    e.exact_calls = exact_calls_thread() - x0;
    // the values satisfy C01-C04 (verdict functions of those checks), release build only
    if verdicts && !any_panic && kind == "rel" {
        for (name, ev) in [("c01", c01_04::eval_c01(st)), ("c02", c01_04::eval_c02(st)), ("c03", c01_04::eval_c03(st)), ("c04", c01_04::eval_c04(st))] {
            e.transitions += ev.transitions;
            e.impl_runs += ev.impl_runs;
            for i in ev.issues {
                e.issues.push(Issue { clause: format!("{}/{}", name, i.clause), case: format!("{}|{}", i.case, kind), detail: i.detail, replay: i.replay });
            }
            for (c, k) in ev.excused {
                for _ in 0..k {
                    e.excuse(&c);
                }
            }
        }
    }
    // near-tie sub-check: vertex removed <=> the integer oracle says strictly inside
    if !any_panic {
        near_tie_subcheck(&mut e, st, &case);
    }
    e.sig = h.finish() ^ (e.exact_calls.min(1) << 40);
    e.nontrivial = e.exact_calls > 0;
    e
}

/// Rebuild every cell clip by clip through the hook wrapper; whenever the floating point filter is
/// undecided for a vertex, the vertex must be removed iff the exact determinant (O-int, on the
/// integers the library itself maps the points to) is strictly negative.
/// The exact predicate *as the clipping code uses it* (C10): every vertex decision of every clip of every cell of the
/// state that the floating-point filter leaves open must be the decision of the integer oracle on the grid positions.
pub fn eval_near_ties(st: &State) -> Eval {
    let mut e = Eval::default();
    near_tie_subcheck_for(&mut e, st, &st.id, "c10-ties");
    e.nontrivial = e.transitions > 0;
    e.sig = e.transitions;
    e
}

fn near_tie_subcheck(e: &mut Eval, st: &State, case: &str) {
    near_tie_subcheck_for(e, st, case, "c05")
}

fn near_tie_subcheck_for(e: &mut Eval, st: &State, case: &str, check: &str) {
    let gens: Vec<DVec3> = st.gens.clone();
    for i in 0..st.n() {
        let seq = match guarded(|| meshless_voronoi::verif::nn_sequence(&gens, i, st.norm_width(), st.dimensionality(), st.periodic)) {
            Ok(s) => s,
            Err(_) => return,
        };
        let r = guarded(|| {
            let mut issues: Vec<String> = vec![];
            let mut ties = 0u64;
            let mut cc = ClipCell::init(&gens, i, st.norm_anchor(), st.norm_width(), st.dimensionality(), st.periodic);
            for (j, shift) in seq.iter().skip(1) {
                let mut ngb = {
                    let mut g = gens[*j];
                    if st.dim <= 1 {
                        g.y = 0.;
                    }
                    if st.dim <= 2 {
                        g.z = 0.;
                    }
                    g
                };
                if let Some(s) = shift {
                    ngb += *s;
                }
                let loc = cc.cell.loc;
                let dx = loc - ngb;
                let dist = dx.length();
                if cc.safety_radius() < dist {
                    break;
                }
                let hs = meshless_voronoi::HalfSpace::new(dx / dist, 0.5 * (loc + ngb), Some(*j), *shift);
                // expected removals
                let a = cc.gen_iloc();
                let v = cc.right_iloc_of(&hs);
                let mut expected_removed: Vec<[usize; 3]> = vec![];
                let mut expected_kept: Vec<[usize; 3]> = vec![];
                for vert in &cc.cell.vertices {
                    let f = hs.clip(vert.loc);
                    let removed = if f == 0. {
                        ties += 1;
                        let b = cc.right_iloc(vert.dual[0]);
                        let c = cc.right_iloc(vert.dual[1]);
                        let d = cc.right_iloc(vert.dual[2]);
                        in_sphere_det_sign(a, b, c, d, v) < 0
                    } else {
                        f < 0.
                    };
                    let mut key = vert.dual;
                    key.sort();
                    if removed {
                        expected_removed.push(key);
                    } else {
                        expected_kept.push(key);
                    }
                }
                let before = cc.cell.clipping_planes.len();
                cc.clip(hs);
                let mut after: Vec<[usize; 3]> = cc
                    .cell
                    .vertices
                    .iter()
                    .map(|v| {
                        let mut k = v.dual;
                        k.sort();
                        k
                    })
                    .collect();
                after.sort();
                for k in &expected_kept {
                    if !after.contains(k) {
                        issues.push(format!("cell {}: clip by neighbour {} removed vertex {:?} although float filter / exact determinant say it is kept", i, j, k));
                    }
                }
                for k in &expected_removed {
                    if after.contains(k) {
                        issues.push(format!("cell {}: clip by neighbour {} kept vertex {:?} although float filter / exact determinant say it is strictly inside", i, j, k));
                    }
                }
                let _ = before;
            }
            (issues, ties)
        });
        match r {
            Ok((issues, ties)) => {
                e.count("near_tie_vertex_decisions", ties);
                e.transitions += ties;
                for d in issues {
                    e.issue("tie-not-resolved-by-exact-sign", case, d, replay_text(check, st, &[]));
                }
            }
            Err(_) => { /* a panic here is already reported by the totality clause */ }
        }
    }
}

/// All C05 families for a tier.
pub fn c05_families(thorough: bool) -> Vec<(String, Vec<State>, bool)> {
    let mut fams: Vec<(String, Vec<State>, bool)> = vec![];
    // (A) exact dyadic lattices + generic pool = the E1 families
    for f in e1_families(thorough, &[1, 2, 3], &[false, true]) {
        fams.push((format!("A:{}", f.describe()), f.states(), true));
    }
    let boxes = box_menu(thorough);
    let nb = if thorough { 3 } else { 2 };
    for b in boxes.iter().take(nb) {
        for periodic in [false, true] {
            // (B1) displaced lattices
            let k3 = if thorough { 3 } else { 2 };
            fams.push((format!("B1:displaced 3{}|{}|L3a K<={}", if periodic { "P" } else { "R" }, b.name, k3), displaced_states(3, periodic, b, L3A, k3), true));
            fams.push((format!("B1:displaced 2{}|{}|L2h K<=3", if periodic { "P" } else { "R" }, b.name), displaced_states(2, periodic, b, Lattice { name: "L2h", m: 2 }, 3), true));
            fams.push((format!("B1:displaced 1{}|{}|L1 K<=3", if periodic { "P" } else { "R" }, b.name), displaced_states(1, periodic, b, L1, 3), true));
            // (B2) clusters
            fams.push((format!("B2:clusters 3{}|{}|L3a K<=3", if periodic { "P" } else { "R" }, b.name), cluster_states(3, periodic, b, L3A, if thorough { 3 } else { 2 }), true));
            fams.push((format!("B2:clusters 2{}|{}|L2h K<=3", if periodic { "P" } else { "R" }, b.name), cluster_states(2, periodic, b, Lattice { name: "L2h", m: 2 }, 3), true));
            // (B3) co-spherical / co-circular
            fams.push((format!("B3:cospherical 3{}|{}", if periodic { "P" } else { "R" }, b.name), cospherical_states(3, periodic, b, if thorough { 3 } else { 2 }), true));
            fams.push((format!("B3:cocircular 2{}|{}", if periodic { "P" } else { "R" }, b.name), cospherical_states(2, periodic, b, if thorough { 4 } else { 3 }), true));
            // (C) thirds
            let kt = if thorough { 3 } else { 2 };
            let pool = lattice_points(L3T, b, 3, periodic);
            let sts: Vec<State> = subsets_upto(pool.len(), kt).iter().map(|s| make_state(3, periodic, b, "L3t", &pool, s)).collect();
            fams.push((format!("C:thirds 3{}|{}|L3t K<={}", if periodic { "P" } else { "R" }, b.name, kt), sts, true));
        }
    }
    // deviation-bounded large states: perfect 4^3 lattice with <= 1 generator removed or displaced
    for periodic in [false, true] {
        let b = boxes[0];
        let mut pts = vec![];
        for i in 0..4 {
            for j in 0..4 {
                for k in 0..4 {
                    pts.push(b.anchor + v3(i as f64 + 0.5, j as f64 + 0.5, k as f64 + 0.5) / 4. * b.width);
                }
            }
        }
        let mut sts = vec![];
        let all: Vec<usize> = (0..64).collect();
        sts.push(make_state(3, periodic, &b, "L64", &pts, &all));
        for r in 0..64 {
            let sub: Vec<usize> = (0..64).filter(|&i| i != r).collect();
            sts.push(make_state(3, periodic, &b, "L64", &pts, &sub));
            let mut s = make_state(3, periodic, &b, "L64", &pts, &all);
            s.gens[r] += v3(1., 2., 3.) * (2f64).powi(-30);
            s.id = format!("{}|disp={}:e30", s.id, r);
            sts.push(s);
        }
        fams.push((format!("L64 lattice +-1 deviation 3{}", if periodic { "P" } else { "R" }), sts, false));
    }
    // (A2) non-cubic exact lattices (dyadic coordinates): body-centred, face-centred and diamond cubic with 2 (thorough 4)
    // cells per side - every Voronoi vertex of a bcc / fcc lattice is an exact tie of 4 / 6 or more generators, the cells
    // (truncated octahedra, rhombic dodecahedra) have vertices where four or more faces meet; off the walls, and (bcc)
    // with the corner sites on the walls
    for periodic in [false, true] {
        for b in boxes.iter().take(2) {
            let mut small = vec![];
            let mut large = vec![];
            for m in if thorough || std::env::var("VERIF_A2_M4").is_ok() { vec![2usize, 4] } else { vec![2usize] } {
                let lat = |basis: &[[f64; 3]], off: f64, closed: bool| -> Vec<DVec3> {
                    let mut pts = vec![];
                    let top = if closed { m + 1 } else { m };
                    for i in 0..top {
                        for j in 0..top {
                            for k in 0..top {
                                for bs in basis {
                                    let f = v3((i as f64 + off + bs[0]) / m as f64, (j as f64 + off + bs[1]) / m as f64, (k as f64 + off + bs[2]) / m as f64);
                                    if f.max_element() <= 1. && (closed || f.max_element() < 1.) {
                                        pts.push(b.anchor + f * b.width);
                                    }
                                }
                            }
                        }
                    }
                    pts
                };
                let bcc = [[0., 0., 0.], [0.5, 0.5, 0.5]];
                let fcc = [[0., 0., 0.], [0.5, 0.5, 0.], [0.5, 0., 0.5], [0., 0.5, 0.5]];
                let dia = [[0., 0., 0.], [0.5, 0.5, 0.], [0.5, 0., 0.5], [0., 0.5, 0.5], [0.25, 0.25, 0.25], [0.75, 0.75, 0.25], [0.75, 0.25, 0.75], [0.25, 0.75, 0.75]];
                let mut add = |name: &str, pts: Vec<DVec3>| {
                    let st = State { id: format!("{}|{}|{}{}", dim_tag(3, periodic), b.name, name, m), dim: 3, periodic, anchor: b.anchor, width: b.width, gens: pts };
                    if st.n() <= 40 {
                        small.push(st);
                    } else {
                        large.push(st);
                    }
                };
                add("bcc", lat(&bcc, 0.125, false));
                add("fcc", lat(&fcc, 0.125, false));
                add("diamond", lat(&dia, 0.0625, false));
                if !periodic {
                    add("bcc-on-walls", lat(&bcc, 0., true));
                    add("fcc-on-walls", lat(&fcc, 0., true));
                } else {
                    add("bcc-at-origin", lat(&bcc, 0., false));
                    add("fcc-at-origin", lat(&fcc, 0., false));
                }
            }
            fams.push((format!("A2:bcc/fcc/diamond 3{}|{} (<= 40 generators)", if periodic { "P" } else { "R" }, b.name), small, true));
            if !large.is_empty() {
                fams.push((format!("A2:bcc/fcc/diamond 3{}|{} (> 40 generators)", if periodic { "P" } else { "R" }, b.name), large, false));
            }
        }
    }
    // (B4) Fibonacci shells: n generators on one sphere up to rounding (every four of them are co-spherical with every
    // other one), with and without a generator at the centre
    {
        let b = boxes[0];
        let mut sts = vec![];
        let sizes: &[usize] = if thorough { &[4, 6, 8, 12, 20, 30, 40, 60, 80, 100, 150, 200, 300] } else { &[8, 20, 40, 80, 200] };
        for &n in sizes {
            for with_centre in [true, false] {
                let c = b.anchor + 0.5 * b.width;
                let mut gens = if with_centre { vec![c] } else { vec![] };
                let golden = std::f64::consts::PI * (3. - 5f64.sqrt());
                for i in 0..n {
                    let z = 1. - 2. * (i as f64 + 0.5) / n as f64;
                    let r = (1. - z * z).sqrt();
                    let phi = golden * i as f64;
                    gens.push(c + 0.25 * v3(r * phi.cos(), r * phi.sin(), z) * b.width);
                }
                sts.push(State { id: format!("3R|b0|fib{}{}", n, if with_centre { "+centre" } else { "" }), dim: 3, periodic: false, anchor: b.anchor, width: b.width, gens });
            }
        }
        // exact rings: an axis pair (or a centre and a neighbour above) inside m co-circular generators - a circle and a
        // point are always co-spherical
        let rings: &[usize] = if thorough { &[5, 12, 17, 33, 40, 64, 65, 66, 68, 70, 72, 80, 100, 128] } else { &[17, 40, 66, 72] };
        for &m in rings {
            for kind in ["axis", "prism"] {
                let mut fr: Vec<DVec3> = if kind == "axis" { vec![v3(0.5, 0.5, 0.3), v3(0.5, 0.5, 0.7)] } else { vec![v3(0.5, 0.5, 0.5)] };
                fr.extend(exact_ring_fracs(m, 0.3));
                if kind == "prism" {
                    fr.push(v3(0.5, 0.5, 0.9));
                }
                sts.push(State { id: format!("3R|b0|exact-ring-{}{}", kind, m), dim: 3, periodic: false, anchor: b.anchor, width: b.width, gens: fr.iter().map(|f| b.anchor + *f * b.width).collect() });
            }
        }
        fams.push(("B4:Fibonacci shells on one sphere and exact rings around an axis (co-spherical up to rounding) 3R|b0".to_string(), sts, true));
    }
    // (E) small length scales with wall contact: the lattice alphabets (generators on walls, edges, corners) in the tiny
    // box, and a ladder of scales 2^-8 .. 2^-48 for a few witness states (where does the absolute term of the filter's
    // error bound start to matter?)
    {
        let bt = scaled_boxes()[0];
        let pool = lattice_points(L3A, &bt, 3, false);
        let sts: Vec<State> = subsets_upto(pool.len(), if thorough { 3 } else { 2 }).iter().map(|s| make_state(3, false, &bt, "L3a", &pool, s)).collect();
        fams.push(("E:tiny box 3R|bt|L3a (generators on walls, edges, corners)".to_string(), sts, true));
        let pool2 = lattice_points(Lattice { name: "L2h", m: 2 }, &bt, 2, false);
        let sts: Vec<State> = subsets_upto(pool2.len(), 3).iter().map(|s| make_state(2, false, &bt, "L2h", &pool2, s)).collect();
        fams.push(("E:tiny box 2R|bt|L2h".to_string(), sts, true));
        let pool1 = lattice_points(L1, &bt, 1, false);
        let sts: Vec<State> = subsets_upto(pool1.len(), 3).iter().map(|s| make_state(1, false, &bt, "L1", &pool1, s)).collect();
        fams.push(("E:tiny box 1R|bt|L1".to_string(), sts, true));
        let mut ladder = vec![];
        for k in [8, 16, 20, 24, 26, 28, 30, 32, 34, 36, 40, 44, 48] {
            let t = (2f64).powi(-k);
            let name: &'static str = Box::leak(format!("s{}", k).into_boxed_str());
            let b = BoxSpec { name, anchor: v3(0., 0., 0.), width: v3(t, 2. * t, t) };
            let pool = lattice_points(L3A, &b, 3, false);
            for sub in [vec![5usize, 9], vec![0, 14], vec![0, 22], vec![0], vec![13], vec![4, 13, 22]] {
                ladder.push(make_state(3, false, &b, "L3a", &pool, &sub));
            }
            let gp = generic_points(&b, 3);
            ladder.push(make_state(3, false, &b, "G", &gp, &[0, 1, 2]));
        }
        fams.push(("E:scale ladder 2^-8..2^-48, witness states with and without wall contact".to_string(), ladder, true));
    }
    // (D) medium / large exact lattices and general-position pools with <= r generators removed, and big cells
    for (desc, sts) in medium_families(thorough, &[1, 2, 3], &[false, true]) {
        fams.push((format!("D:{}", desc), sts, false));
    }
    fams.push(("D:big cells (axis pair + ring, prism + neighbour above, jittered shells)".to_string(), bigcell_family(thorough), true));
    fams
}
