#!/bin/bash
# try_seed.sh <patch.diff> <tier> <check ids...> : apply a seeded change to /repo, run checks, undo it.
P="$(readlink -f "$1")"; TIER="$2"; shift 2
# serialise against every other user of /repo's working tree
exec 9>/tmp/verif_repo.lock; flock 9; export VERIF_HAVE_REPO_LOCK=1
cd /repo || exit 2
if [ -n "$(git status --porcelain)" ]; then echo "/repo is not clean"; exit 2; fi
git apply "$P" || { echo "patch does not apply"; exit 2; }
trap 'git -C /repo checkout -- . ' EXIT
for c in "$@"; do
  # evidence of a run against a seeded tree must never land in /verif/evidence
  out=$(VERIF_EVIDENCE_PATH=/tmp/seed_evidence_$c.json timeout ${SEED_TIMEOUT:-600} /verif/check "$c" "$TIER" 2>&1); code=$?
  nv=$(echo "$out" | grep -c '^VIOLATION')
  echo "== $c $TIER: exit=$code violations_lines=$nv"
  echo "$out" | grep -A2 '^VIOLATION' | cut -c1-300 | head -${SEED_LINES:-9}
done
