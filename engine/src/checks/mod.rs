pub mod c01_04;
pub mod c07_12_13;
pub mod c06_08_16;
pub mod c14_15;
pub mod c05;
pub mod c10_11;
pub mod c17_19_20;
pub mod c18;

use crate::alpha::*;
use crate::report::*;
use crate::util::J;
use crate::{run_e1, run_e1_perm};

const E1_RULE: &str = "every non-empty subset (size <= K) of each lattice / generic-pool alphabet, for every dimensionality, boundary kind and box of the menu, built by the real API; distinct = distinct combinatorial shape (per cell: set of non-negligible oracle faces and vertex count); non-trivial = at least one cell of positive measure";

pub fn run(prop: &str, tier: &str) -> i32 {
    if prop == "C11PART" {
        return c10_11::c11_part(tier);
    }
    let mut run = Run::new(prop, tier);
    set_thorough_menus(run.thorough());
    run.assumptions.push("inputs outside the enumerated alphabets are not covered".to_string());
    run.assumptions.push("tolerances of DESIGN.md section 1.5".to_string());
    match prop {
        "C01" => {
            run.rule = E1_RULE.to_string();
            run.bounds.push("E1 families (see families)".to_string());
            run_e1_perm(&mut run, &[1, 2, 3], &[false, true], 999, true, c01_04::eval_c01);
            let large = large_states(run.thorough());
            run.family("large states (2000 uniform generators; dense cluster of 1200+ with six isolated generators; reflective and periodic): all cells built, tiling, a committed subset of cells against the oracle".to_string(), large.len() as u64);
            run.explore(&large, c01_04::eval_c01_large, |s| J::s(s.id.clone()));
        }
        "C02" => {
            run.rule = E1_RULE.to_string();
            run_e1_perm(&mut run, &[1, 2, 3], &[false, true], 999, true, c01_04::eval_c02);
            let large = large_states(run.thorough());
            run.family("large states (2000 uniform generators; dense cluster of 1200+ with six isolated generators; reflective and periodic)".to_string(), large.len() as u64);
            run.explore(&large, c01_04::eval_c02_large, |s| J::s(s.id.clone()));
        }
        "C03" => {
            run.rule = format!("{}; x all 2^n masks (n <= 4) + mask-flip edges", E1_RULE);
            run_e1_perm(&mut run, &[1, 2, 3], &[false, true], 999, true, c01_04::eval_c03);
        }
        "C04" => {
            run.rule = format!("{}; x all 2^n masks (n <= 3)", E1_RULE);
            run_e1_perm(&mut run, &[1, 2, 3], &[false, true], 999, true, c01_04::eval_c04);
        }
        "C07" => {
            run.rule = format!("{}; x all 2^n masks (n <= 4 quick / 5 thorough): each node compared bitwise with the full build, so every mask-flip edge is covered by transitivity", E1_RULE);
            let mx = if run.thorough() { 5 } else { 4 };
            run_e1_perm(&mut run, &[1, 2, 3], &[false, true], 999, true, move |s| c07_12_13::eval_c07_with(s, mx));
            let items = c07_12_13::c07_large_items(run.thorough());
            run.family(format!("large states (2500-5000 uniform generators in 1D/2D/3D, boxes of 1, 10 and 1000 length units; dense cluster + six isolated generators) under sparse structured masks (single cells at every face / centre / corner, blobs of 8 and n/16, a rod through the box, every 16th cell): {} (state, mask) nodes", items.iter().map(|i| i.1.len()).sum::<usize>()), items.len() as u64);
            run.explore(&items, c07_12_13::eval_c07_item, |s| J::s(s.0.id.clone()));
        }
        "C12" => {
            run.rule = format!("{}; x all 2^n masks (n <= 4) x routes (direct, From<&VoronoiIntegrator>, with faces)", E1_RULE);
            run_e1_perm(&mut run, &[1, 2, 3], &[false, true], 999, true, c07_12_13::eval_c12);
        }
        "C13" => {
            run.rule = format!("{}; x all 2^n masks (n <= 4); relations route<->route", E1_RULE);
            run_e1_perm(&mut run, &[1, 2, 3], &[false, true], 999, true, c07_12_13::eval_c13);
        }
        "C06" => {
            run.rule = format!("periodic states of: {}; relations: replicated reflective build (n <= 3 quick / 4 thorough), shift structure, 11-14 translations per state", E1_RULE);
            let mx = if run.thorough() { 4 } else { 3 };
            run_e1(&mut run, &[1, 2, 3], &[true], 999, move |s| c06_08_16::eval_c06_with(s, mx));
        }
        "C08" | "C08DBG" => {
            if prop == "C08DBG" {
                // the same exploration in a build with debug assertions on (the library's debug_assert!s guard its
                // 1D/2D normalisations and the integer grid of the unused axes)
                run.property = "C08".to_string();
                run.known = load_known_findings("C08");
            }
            run.assumptions.push(format!("this run: build kind = {} (the check runs a debug-assertions build and a release build)", c05::build_kind()));
            run.rule = format!("1D/2D states of: {}; transitions: every unused coordinate (generators, anchor, width) rewritten to each value of a 6-value menu, all pairs of such deviations with extreme values (n <= 3); 1D closed form; 2D vs 3D slab", E1_RULE);
            run_e1(&mut run, &[1, 2], &[false, true], 999, c06_08_16::eval_c08);
        }
        "C16" => {
            run.rule = format!("nodes: states with |S| <= K-1 of: {}; edges: S -> S + p for every alphabet point p not in S and every ring point at r(1 +- 2^-20), 1.25 r around each cell (6-10 directions)", E1_RULE);
            let fams = e1_families(run.thorough(), &[1, 2, 3], &[false, true]);
            for fam in fams {
                let k = if fam.alpha == "L1" { 4 } else { fam.k.saturating_sub(1).max(1) };
                let subs = subsets_upto(fam.pool.len(), k);
                let items: Vec<(State, Vec<glam::DVec3>)> = subs
                    .iter()
                    .map(|sub| {
                        let st = make_state(fam.dim, fam.periodic, &fam.bx, &fam.alpha, &fam.pool, sub);
                        let cands: Vec<glam::DVec3> = (0..fam.pool.len()).filter(|i| !sub.contains(i)).map(|i| fam.pool[i]).collect();
                        (st, cands)
                    })
                    .collect();
                run.family(format!("{} (nodes |S| <= {})", fam.describe(), k), items.len() as u64);
                run.explore(&items, c06_08_16::eval_c16, |s| s.0.to_json());
            }
            // medium / large and big-cell states as nodes (cells with more than 64 vertices, many neighbours at nearly the
            // same distance); edges: ring points around the first two cells
            let mut med = medium_families(run.thorough(), &[1, 2, 3], &[false, true]);
            med.push(("3R big cells (axis pair + ring, prism + neighbour above, jittered shells)".to_string(), bigcell_family(run.thorough())));
            for (desc, states) in med {
                let mut items: Vec<(State, Vec<glam::DVec3>)> = states.into_iter().filter(|s| s.n() > 8 && (run.thorough() || s.n() <= 80)).map(|s| (s, vec![])).collect();
                if !run.thorough() {
                    // quick: the complete pool and the first removals of each family
                    items.truncate(12);
                }
                if items.is_empty() {
                    continue;
                }
                run.family(format!("{} (nodes; ring edges around cells 0 and 1)", desc), items.len() as u64);
                run.explore(&items, c06_08_16::eval_c16, |s| s.0.to_json());
            }
        }
        "C05" | "C05DBG" => {
            run.rule = "families A (all E1 states: exact dyadic lattices incl. walls/edges/corners, single generators, collinear/coplanar/co-spherical subsets; generic pool), B1 (one generator displaced by 2^-20..2^-50 along 3 directions), B2 (clusters scaled by 2^-10..2^-40 about centre/corner, with/without a far generator), B3 (co-spherical integer shells, co-circular in 2D), C (thirds lattice), 4^3 lattice with <= 1 deviation; each state through Voronoi::build, VoronoiIntegrator::build and build_partial (all masks, n <= 3); release build additionally evaluates the C01-C04 verdict functions and every near-tie vertex decision against the integer oracle; non-trivial = the exact predicate was reached".to_string();
            run.assumptions.push(format!("this run: build kind = {} (the check runs a debug-assertions build and a release build)", c05::build_kind()));
            if prop == "C05DBG" {
                run.property = "C05".to_string();
                run.known = load_known_findings("C05");
            }
            for (desc, states, verdicts) in c05::c05_families(run.thorough()) {
                run.family(format!("{}{}", desc, if verdicts { "" } else { " [totality, finiteness and near-tie decisions only: the C01-C04 verdicts of these states are the C01-C04 checks themselves]" }), states.len() as u64);
                run.explore(&states, |s| c05::eval_c05_with(s, verdicts), |s| s.to_json());
            }
        }
        "C10" | "C10DBG" => {
            if prop == "C10DBG" {
                run.property = "C10".to_string();
                run.known = load_known_findings("C10");
            }
            run.assumptions.push(format!("this run: build kind = {} (the check runs a debug-assertions build and a release build)", c05::build_kind()));
            c10_11::run_c10(&mut run);
        }
        "C11" => {
            c10_11::run_c11(&mut run);
        }
        "C17" => {
            run.rule = "visit sequences through the hook wrapper for every query generator of: all subsets of the 1D lattice, all subsets of a 3x3 (quick) / 4x4 (thorough) 2D lattice (sizes > 6 force r-tree inner nodes), 3D lattice subsets up to K, generic pool, perfect 4^3 (5^3) lattices with <= 1 generator removed (many equidistant candidates); reflective and periodic; box menu; oracle = brute force (first item, completeness, uniqueness, shift lattice, order; strict order where the arithmetic is exact)".to_string();
            for (desc, states) in c17_19_20::c17_families(run.thorough()) {
                run.family(desc, states.len() as u64);
                run.explore(&states, c17_19_20::eval_c17, |s| s.to_json());
            }
        }
        "C19" => {
            run.rule = "plane helpers: all triples of non-zero integer normals in {-2..2}^3 with det != 0 (normalised and not) x point menus; projections for every (normal, plane point, query point) x 3 scales x 3 normal lengths; line projections for every normal pair; signed measures: all 4-tuples of {0,1,2}^3 x 3 scales and all vertex swaps; spheres: all affinely independent 2-,3-,4-tuples of {0,1,2}^3 x scales/offsets; extend/contains over a sphere x point menu x 3 scales; oracle = defining equations in exact integer arithmetic".to_string();
            let th = run.thorough();
            let mut items: Vec<(String, usize, bool)> = vec![];
            for i in 0..124 {
                items.push(("planes".to_string(), i, th));
            }
            for i in 0..27 {
                items.push(("measures".to_string(), i, th));
                items.push(("spheres".to_string(), i, th));
            }
            run.family("work items: 124 first normals, 27 first vertices (measures), 27 first vertices (spheres)".to_string(), items.len() as u64);
            run.explore(&items, c17_19_20::eval_c19, |i| J::s(format!("{} #{}", i.0, i.1)));
        }
        "C20" => {
            c17_19_20::run_c20(&mut run);
        }
        "C18" => {
            c18::run_c18(&mut run);
        }
        "C14" => {
            run.rule = format!("{}; x all 2^n masks (n <= 3) x {{without faces, with faces (3D)}}; recording integrals implemented by this downstream crate (monomials of degree <= 2, face triangles)", E1_RULE);
            let mx = if run.thorough() { 999 } else { 32 };
            run.bounds.push(format!("states with at most {} generators", mx));
            run_e1(&mut run, &[1, 2, 3], &[false, true], mx, c14_15::eval_c14);
        }
        "C15" => {
            run.rule = format!("3D states of: {}; x all 2^n masks (n <= 3); per cell all type-state operation sequences of length <= 4 over {{with_faces, discard_faces, clone, integrals}}; 1D/2D states: with_faces must be rejected", E1_RULE);
            let mx = if run.thorough() { 999 } else { 32 };
            run.bounds.push(format!("states with at most {} generators", mx));
            run_e1(&mut run, &[1, 2, 3], &[false, true], mx, c14_15::eval_c15);
        }
        _ => {
            eprintln!("unknown property {}", prop);
            return 2;
        }
    }
    run.finish()
}

pub fn replay(path: &str) -> i32 {
    let Ok(text) = std::fs::read_to_string(path) else {
        eprintln!("cannot read {}", path);
        return 2;
    };
    let get = |k: &str| text.lines().find_map(|l| l.strip_prefix(&format!("{}=", k)).map(|s| s.to_string()));
    let check = get("check").unwrap_or_default();
    let prop = get("property").unwrap_or_default();
    let clause = get("clause").unwrap_or_default();
    if check == "c10" {
        return c10_11::replay_tuple(&text);
    }
    if check == "c10-grid" {
        let bx = get("box").and_then(|b| box_by_name(&b));
        let dim = get("dim").and_then(|d| d.parse::<usize>().ok());
        let per = get("periodic").map(|p| p == "true");
        if let (Some(bx), Some(dim), Some(per)) = (bx, dim, per) {
            let e = c10_11::eval_grid_map(&(bx, dim, per));
            for i in &e.issues {
                println!("ISSUE clause={} case={}\n   {}", i.clause, i.case, i.detail);
            }
            return if e.issues.is_empty() { 0 } else { 1 };
        }
        eprintln!("cannot parse grid-map replay {}", path);
        return 2;
    }
    if check == "c19" {
        println!("C19 cases are named by their arguments (see 'case' in the replay file); re-running the family:");
        let mut bad = 0;
        for i in 0..124 {
            bad += c17_19_20::eval_c19(&("planes".to_string(), i, true)).issues.len();
        }
        for i in 0..27 {
            bad += c17_19_20::eval_c19(&("measures".to_string(), i, true)).issues.len();
            bad += c17_19_20::eval_c19(&("spheres".to_string(), i, true)).issues.len();
        }
        println!("{} issues", bad);
        return if bad > 0 { 1 } else { 0 };
    }
    if check == "c20-knn" || check == "c20-spheres" {
        let pts: Vec<glam::DVec3> = text.lines().filter_map(|l| l.strip_prefix("gen=")).filter_map(crate::util::parse_vec_hex).collect();
        let e = if check == "c20-knn" {
            let a = get("anchor").and_then(|v| crate::util::parse_vec_hex(&v));
            let w = get("width").and_then(|v| crate::util::parse_vec_hex(&v));
            match (a, w) {
                (Some(a), Some(w)) => c17_19_20::eval_c20_knn(&(a, w, pts, "replay".to_string())),
                _ => {
                    eprintln!("cannot parse {}", path);
                    return 2;
                }
            }
        } else {
            c17_19_20::eval_c20_spheres(&(pts, "replay".to_string()))
        };
        for i in &e.issues {
            println!("ISSUE clause={} case={}\n   {}", i.clause, i.case, i.detail);
        }
        return if e.issues.is_empty() { 0 } else { 1 };
    }
    if check == "c18-long" {
        let steps = get("steps").and_then(|v| v.parse::<usize>().ok()).unwrap_or(70_000);
        let rr = get("round_robin").map_or(false, |v| v == "true");
        let e = c18::eval_c18_long(&(steps, rr));
        for i in &e.issues {
            println!("ISSUE clause={} case={}\n   {}", i.clause, i.case, i.detail);
        }
        return if e.issues.is_empty() { 0 } else { 1 };
    }
    if check == "c11" {
        println!("C11 replays are comparisons between builds: run ./check C11 quick");
        return 2;
    }
    let Some(st) = State::from_replay(&text) else {
        eprintln!("cannot parse state in {}", path);
        return 2;
    };
    let e = match check.as_str() {
        "c01" => c01_04::eval_c01(&st),
        "c02" => c01_04::eval_c02(&st),
        "c03" => c01_04::eval_c03(&st),
        "c04" => c01_04::eval_c04(&st),
        "c06" => c06_08_16::eval_c06_with(&st, 4),
        "c08" => c06_08_16::eval_c08(&st),
        "c16" => {
            // the added generator (if any) is the last one of the recorded state: replay the edge from the state without it
            if st.id.contains("|add=") {
                let mut base = st.clone();
                let p = base.gens.pop().unwrap();
                base.id = st.id.split("|add=").next().unwrap().to_string();
                c06_08_16::eval_c16(&(base, vec![p]))
            } else {
                c06_08_16::eval_c16(&(st.clone(), vec![]))
            }
        }
        "c05" => c05::eval_c05(&st),
        "c18" => {
            // rebuild the extra planes from the alphabet named in the id
            let parts: Vec<&str> = st.id.split('|').collect();
            let periodic = parts[0].ends_with('P');
            let bx = box_by_name(parts[1]);
            let used: Vec<usize> = parts.get(3).map(|p| p.split(',').filter_map(|x| x.parse().ok()).collect()).unwrap_or_default();
            let extra: Vec<glam::DVec3> = match (bx, parts.get(2)) {
                (Some(b), Some(&"L3a")) => {
                    let pool = lattice_points(L3A, &b, 3, periodic);
                    (0..pool.len()).filter(|i| !used.contains(i)).map(|i| pool[i]).collect()
                }
                (Some(b), Some(&"G")) => {
                    let pool = generic_points(&b, 3);
                    (0..pool.len()).filter(|i| !used.contains(i)).map(|i| pool[i]).collect()
                }
                _ => vec![],
            };
            c18::eval_c18(&(st.clone(), extra))
        }
        "c17" => c17_19_20::eval_c17(&st),
        "c10-duals" => c10_11::eval_dual_orientation(&st),
        "c10-ties" => c05::eval_near_ties(&st),
        "c14" => c14_15::eval_c14(&st),
        "c15" => c14_15::eval_c15(&st),
        "c07" => match get("mask") {
            Some(m) if st.n() > 5 => c07_12_13::eval_c07_masks(&st, vec![parse_mask(&m)]),
            _ => c07_12_13::eval_c07_with(&st, 5),
        },
        "c12" => c07_12_13::eval_c12(&st),
        "c13" => c07_12_13::eval_c13(&st),
        _ => {
            eprintln!("unknown check '{}' in {}", check, path);
            return 2;
        }
    };
    let mut e = e;
    if clause == "result-depends-on-call-history" {
        crate::tess::history_differential(&mut e, &check, &st);
    }
    if std::env::var("VERIF_DUMP").is_ok() {
        dump_state(&st);
    }
    println!("replay of {} ({}), recorded clause: {}", path, prop, clause);
    println!("{}", st.to_replay());
    let mut n = 0;
    for i in &e.issues {
        println!("ISSUE clause={} case={}\n   {}", i.clause, i.case, i.detail);
        if i.clause == clause || clause.ends_with(&format!("/{}", i.clause)) {
            n += 1;
        }
    }
    for (c, k) in &e.excused {
        println!("EXCUSED (known-finding selector) clause={} x{}", c, k);
    }
    if n > 0 {
        println!("REPRODUCED: {} issue(s) with the recorded clause", n);
        1
    } else if !e.issues.is_empty() {
        println!("NOT REPRODUCED with the recorded clause, but other issues were found");
        1
    } else {
        println!("NOT REPRODUCED: the state passes");
        0
    }
}

/// Debugging aid for replays (VERIF_DUMP=1): library vs oracle values of every cell and face of the state.
fn dump_state(st: &State) {
    use crate::obs::FaceRec;
    use crate::tess::*;
    let oc = ocells(st);
    let Ok(integ) = build_integrator(st, None) else {
        println!("DUMP: build panicked");
        return;
    };
    let vc = integ.compute_cell_integrals::<meshless_voronoi::integrals::VolumeCentroidIntegral>();
    let recs = integ.compute_face_integrals::<FaceRec>();
    let lf = lib_cell_faces(st, &recs, st.n());
    for i in 0..st.n() {
        println!("DUMP cell {}: volume lib {:e} oracle {:e}; centroid lib {} oracle {}", i, vc[i].volume, oc[i].volume, crate::util::fmt_vec(vc[i].centroid), crate::util::fmt_vec(oc[i].centroid));
        for of in &oc[i].faces {
            let l = lf[i].by_key.get(&of.key).map(|v| (v[0].area, v[0].centroid));
            println!("DUMP   face {}: area oracle {:e} lib {:?} n {}", of.key.describe(), of.area, l.map(|x| x.0), crate::util::fmt_vec(of.normal));
        }
        for (k, v) in &lf[i].by_key {
            if !oc[i].faces.iter().any(|f| f.key == *k) {
                println!("DUMP   face {} only in the library: area {:e}", k.describe(), v[0].area);
            }
        }
    }
}
